/-
  C02: abstract command trees, their concrete spellings and the AST they denote.

  `gen` turns a choice sequence into an abstract tree (`Cmd`), `render` spells it (blanks, `;` versus
  newline, line continuations and comments between tokens, quoting style, reserved words as
  arguments) and computes, *from the rendering itself*, the AST that spelling denotes under the
  documented conventions of bashlex (flat lists and pipelines, single elements collapse, spans).
  Tree generation, rendering and the expected tree are one Lean definition; the harness only supplies
  choice sequences and compares `parse (rendered)` with the expected tree.
-/
import Bashlex.Model.Ast

namespace Bashlex.Spec
open Bashlex

inductive Piece where
  | lit (s : Str)                      -- plain characters
  | param (name : Str) (braces : Bool)
  | special (c : Char)                 -- $1 $? $$ ...
  | csub (body : Nat)                  -- index into the command table (avoids a nested inductive)
  | psub (out : Bool) (body : Nat)
  deriving Repr, Inhabited

structure AWord where
  tilde : Option Str := none           -- ~user prefix
  pieces : List Piece := []
  dq : Bool := false                   -- the whole word inside double quotes
  sq : Bool := false                   -- the whole word inside single quotes (literal pieces only)
  /-- a LITERAL word `~text…` spelled by quoting the text after the tilde (`~"a"`, `~'a b'`, `~\a`): a quote in the
      tilde-prefix suppresses tilde expansion, the value is `~text`, there is no tilde node -/
  qtilde : Option (Str × Nat) := none
  deriving Repr, Inhabited

inductive RedirT where
  | file (fd : Option Nat) (op : String) (target : AWord)
  | dup (fd : Option Nat) (op : String) (n : Nat)       -- >&2
  | close (fd : Option Nat) (op : String)               -- <&-
  deriving Repr, Inhabited

/-- separators inside lists -/
inductive Sep where | andand | oror | semi | amp | nl
  deriving Repr, Inhabited, DecidableEq

inductive Cmd where
  | simple (assigns : List (Str × AWord)) (words : List AWord) (redirs : List (Nat × RedirT))
  | pipeline (bang : Bool) (cmds : List Cmd)
  | list (first : Cmd) (rest : List (Sep × Cmd)) (final : Option Sep)
  | subshell (body : Cmd) | group (body : Cmd)
  | ifC (clauses : List (Cmd × Cmd)) (els : Option Cmd)
  | whileC (until_ : Bool) (cond body : Cmd)
  | forC (name : Str) (words : Option (List AWord)) (body : Cmd) (braces : Bool)
  | caseC (word : AWord) (clauses : List (Bool × List AWord × Option Cmd × String))
  | func (style : Nat) (name : Str) (body : Cmd)
  deriving Repr, Inhabited

/-! ### rendering state -/
structure RS where
  out : Array Char := #[]
  ch : List Nat := []
  tags : List String := []
  /-- bodies of substitutions, rendered on demand: abstract commands by index -/
  table : Array Cmd := #[]
  /-- reserved words of the constructs being generated (preferred as plain arguments inside them) -/
  kwctx : List String := []
  /-- nesting depth of case clauses being rendered -/
  inCase : Nat := 0

abbrev R := StateM RS

def pick (n : Nat) : R Nat := do
  let s ← get
  match s.ch with
  | [] => pure 0
  | c :: cs => set { s with ch := cs }; pure (if n == 0 then 0 else c % n)

def here : R Nat := do return (← get).out.size
def emit (t : String) : R Span := do
  let a ← here
  modify fun s => { s with out := s.out ++ t.toList.toArray }
  return (a, a + t.length)
def emitS (t : Str) : R Span := emit (String.ofList t)
def rtag (t : String) : R Unit := modify fun s => if s.tags.contains t then s else { s with tags := s.tags ++ [t] }

/-- layout between two tokens on one line (at least one blank) -/
def blank : R Unit := do
  match ← pick 10 with
  | 0 => discard <| emit "  "
  | 1 => discard <| emit "\t"
  | 2 => discard <| emit " \\\n "
  | 3 => discard <| emit "   "
  | 4 => discard <| emit " \\\n"
  | _ => discard <| emit " "
/-- optional layout where none is needed -/
def oblank : R Unit := do
  match ← pick 6 with
  | 0 => discard <| emit " "
  | 1 => discard <| emit "  "
  | _ => pure ()
/-- a newline, possibly preceded by a comment and followed by blank lines -/
def newline : R Unit := do
  match ← pick 8 with
  | 0 => discard <| emit " # c\n"
  | 1 => discard <| emit "\n\n"
  | 2 => discard <| emit " #x;y\n "
  | 3 => discard <| emit "\n  "
  | _ => discard <| emit "\n"

def kw (w : String) : R Node := do
  let p ← emit w
  return .reservedword p w.toList

def opNode (w : String) : R Node := do
  let p ← emit w
  return .operator p w.toList

/-! ### words -/
def litPool : List String := ["a", "b", "c", "foo", "x1", "-l", "--opt", "1", "42", "a.b", "/bin/x", "./y", "a-b", "a_b", "@", "%", "+", ",", ":"]
def reservedArgs : List String := ["if", "then", "else", "fi", "do", "done", "case", "esac", "in", "for", "while", "{", "}", "!", "function", "time"]
def namePool : List String := ["a", "b", "x", "foo", "A1", "_v"]

def hasCaseWord : Str → Bool
  | 'c' :: 'a' :: 's' :: 'e' :: _ => true
  | _ :: r => hasCaseWord r
  | [] => false

def hasContinuationR : Str → Bool
  | '\\' :: '\n' :: _ => true
  | _ :: r => hasContinuationR r
  | [] => false
def stripContinuationsR : Str → Str
  | '\\' :: '\n' :: r => stripContinuationsR r
  | c :: r => c :: stripContinuationsR r
  | [] => []

/-- render a word; returns the node.  `depth`: remaining nesting of substitutions;
    `renderBody` renders a substitution body (open recursion). -/
def renderWord (renderBody : Nat → R (Option Node)) (w : AWord) (asAssign : Option Str := none) : R Node := do
  let start ← here
  let mut value : Str := []
  let mut parts : List Node := []
  match asAssign with
  | some n => discard <| emitS (n ++ ['=']); value := n ++ ['=']
  | none => pure ()
  if w.sq then
    -- wholly single-quoted: literal text
    discard <| emit "'"
    for p in w.pieces do
      match p with
      | .lit s => discard <| emitS s; value := value ++ s
      | _ => pure ()
    discard <| emit "'"
  else
    if w.dq then discard <| emit "\""
    match w.qtilde with
    | some (u, q) =>
      if !w.dq then
        discard <| emit "~"; value := value ++ ['~']
        if q == 1 then
          for c in u do
            discard <| emit "\\"; discard <| emitS [c]
        else if q == 2 then discard <| emit "\""; discard <| emitS u; discard <| emit "\""
        else discard <| emit "'"; discard <| emitS u; discard <| emit "'"
        value := value ++ u
    | none => pure ()
    match w.tilde with
    | some u =>
      let p ← emitS ('~' :: u)
      value := value ++ ('~' :: u)
      if !w.dq && asAssign.isNone then parts := parts ++ [.tilde p ('~' :: u)]
      else rtag "+tilde-not-at-word-start"
      discard <| emit "/"; value := value ++ ['/']
    | none => pure ()
    for p in w.pieces do
      match p with
      | .lit s0 =>
        -- a reserved word used as a plain argument is rendered bare
        let isRw := s0.head? == some '\u0001'
        let s := if isRw then s0.drop 1 else s0
        -- a word `{` / `}` makes the *next* word a reserved-word position for bashlex (finding D25)
        if isRw && (s == ['{'] || s == ['}']) then rtag "+brace-as-argument"
        -- quoting style of a literal piece
        let style ← if w.dq || isRw then pure 0 else pick 5
        if style == 1 && !s.isEmpty then
          -- backslash-escape the first character
          discard <| emit "\\"; discard <| emitS s; value := value ++ s
        else if style == 2 then
          discard <| emit "\""; discard <| emitS s; discard <| emit "\""; value := value ++ s
        else
          discard <| emitS s; value := value ++ s
      | .param n b =>
        let t : Str := if b then '$' :: '{' :: n ++ ['}'] else '$' :: n
        let sp ← emitS t
        value := value ++ t
        parts := parts ++ [.parameter sp n]
      | .special c =>
        -- `$#` inside a substitution trips the comment heuristics of the tokenizer (finding D35)
        if c == '#' then rtag "+dollar-hash"
        let sp ← emitS ['$', c]
        value := value ++ ['$', c]
        parts := parts ++ [.parameter sp [c]]
      | .csub b =>
        let a ← here
        discard <| emit "$("
        let body ← renderBody b
        discard <| emit ")"
        let e ← here
        let txt := ((← get).out.toList.take e).drop a
        if (txt.drop 2).head? == some (Char.ofNat 40) then rtag "+arithmetic-lookalike"
        if (← get).inCase > 0 then rtag "+substitution-in-case-clause"
        if hasCaseWord txt then rtag "+case-in-substitution"
        if hasContinuationR txt then rtag "+continuation-in-substitution"
        if (stripContinuationsR txt).contains '\n' then rtag "+newline-in-substitution"
        value := value ++ stripContinuationsR txt
        match body with
        | some n => parts := parts ++ [.commandsubstitution (a, e) n]
        | none => pure ()
      | .psub o b =>
        let a ← here
        discard <| emit (if o then ">(" else "<(")
        let body ← renderBody b
        discard <| emit ")"
        let e ← here
        let txt := ((← get).out.toList.take e).drop a
        if hasContinuationR txt then rtag "+continuation-in-substitution"
        if (stripContinuationsR txt).contains '\n' then rtag "+newline-in-substitution"
        value := value ++ stripContinuationsR txt
        if w.dq then rtag "+procsub-in-dquotes"
        if (← get).inCase > 0 then rtag "+substitution-in-case-clause"
        if hasCaseWord txt then rtag "+case-in-substitution"
        -- bashlex switches process substitution off for a word that starts with a double quote
        if !w.dq && (← get).out[start]? == some '"' then rtag "+procsub-after-leading-dquote"
        match body with
        | some n => if !w.dq then parts := parts ++ [.processsubstitution (a, e) n]
        | none => pure ()
    if w.dq then discard <| emit "\""
  let stop ← here
  match asAssign with
  | some _ => return .assignment (start, stop) value parts
  | none => return .word (start, stop) value parts

/-! ### commands -/

def spanOf (ns : List Node) : Span :=
  match ns.head?, ns.getLast? with
  | some a, some b => (a.pos.1, b.pos.2)
  | _, _ => (0, 0)

def sepText : Sep → String
  | .andand => "&&" | .oror => "||" | .semi => ";" | .amp => "&" | .nl => "\n"

/-- list nodes as bashlex flattens them: parts of nested lists are spliced -/
def flatParts (n : Node) : List Node :=
  match n with
  | .list _ ps => ps
  | m => [m]

mutual
/-- render a command; `inList`: the caller splices list parts (and/or inside lists) -/
def renderCmd : Nat → Cmd → R Node
  | 0, _ => do let p ← emit "a"; return .command p [.word p ['a'] []]
  | fuel + 1, c => do
    let body := fun (i : Nat) => do
      let tbl := (← get).table
      match tbl[i]? with
      | some b => do
        let n ← renderCmd fuel b
        -- only simple commands and pipelines are accepted before ')' (known finding D8)
        match n with
        | .list .. => rtag "+substitution-body-is-a-list"
        | _ => pure ()
        pure (some n)
      | none => pure none
    match c with
    | .simple assigns words redirs =>
      let mut parts : List Node := []
      let mut first := true
      let nw := words.length
      for (n, v) in assigns do
        if !first then blank
        first := false
        parts := parts ++ [← renderWord body v (some n)]
      let mut idx := 0
      for w in words do
        -- redirections placed before word `idx`
        for (at_, r) in redirs do
          if at_ == idx then
            if !first then blank
            first := false
            parts := parts ++ [← renderRedir fuel r]
        if !first then blank
        first := false
        parts := parts ++ [← renderWord body w]
        idx := idx + 1
      for (at_, r) in redirs do
        if at_ ≥ nw then
          if !first then blank
          first := false
          parts := parts ++ [← renderRedir fuel r]
      return .command (spanOf parts) parts
    | .pipeline bang cmds =>
      let mut parts : List Node := []
      if bang then
        parts := [← kw "!"]
        blank
      let mut first := true
      for c in cmds do
        if !first then
          oblank
          let p ← emit "|"
          parts := parts ++ [.pipe p ['|']]
          -- `|` directly followed by `&>` would read as `|&` `>`
          let amp : Bool := match c with
            | .simple [] ws rs =>
              (match rs.find? (fun r => r.1 == 0 || ws.isEmpty) with
               | some (_, .file none op _) => op.startsWith "&"
               | _ => false)
            | _ => false
          if (← pick 6) == 0 then newline else (if amp then blank else oblank)
        first := false
        parts := parts ++ [← renderCmd fuel c]
      match parts with
      | [single] => return single
      | _ => return .pipeline (spanOf parts) parts
    | .list first rest final =>
      let mut parts : List Node := flatParts (← renderCmd fuel first)
      for (s, c) in rest do
        oblank
        parts := parts ++ [← opNode (sepText s)]
        if s == .andand || s == .oror then (if (← pick 6) == 0 then newline else oblank) else blank
        parts := parts ++ flatParts (← renderCmd fuel c)
      match final with
      | some s => do oblank; parts := parts ++ [← opNode (sepText s)]
      | none => pure ()
      match parts with
      | [single] => return single
      | _ => return .list (spanOf parts) parts
    | .subshell b =>
      let l ← kw "("
      oblank
      let inner ← renderCmd fuel b
      oblank
      let r ← kw ")"
      return .compound (l.pos.1, r.pos.2) [l, inner, r] []
    | .group b =>
      let l ← kw "{"
      blank
      let inner ← renderCList fuel b
      let r ← kw "}"
      return .compound (l.pos.1, r.pos.2) [l, inner, r] []
    | .ifC clauses els =>
      let mut parts : List Node := []
      let mut first := true
      for (c, t) in clauses do
        parts := parts ++ [← kw (if first then "if" else "elif")]
        first := false
        blank
        parts := parts ++ [← renderCList fuel c]
        parts := parts ++ [← kw "then"]
        blank
        parts := parts ++ [← renderCList fuel t]
      match els with
      | some e =>
        parts := parts ++ [← kw "else"]
        blank
        parts := parts ++ [← renderCList fuel e]
      | none => pure ()
      parts := parts ++ [← kw "fi"]
      let sp := spanOf parts
      return .compound sp [.ifN sp parts] []
    | .whileC u c b =>
      let k ← kw (if u then "until" else "while")
      blank
      let cn ← renderCList fuel c
      let d ← kw "do"
      blank
      let bn ← renderCList fuel b
      let dn ← kw "done"
      let parts := [k, cn, d, bn, dn]
      let sp := spanOf parts
      return .compound sp [if u then .untilN sp parts else .whileN sp parts] []
    | .forC name words b braces =>
      let mut parts : List Node := [← kw "for"]
      blank
      let np ← emitS name
      parts := parts ++ [.word np name []]
      match words with
      | some ws =>
        blank
        parts := parts ++ [← kw "in"]
        for w in ws do
          blank
          parts := parts ++ [← renderWord body w]
        -- list_terminator: ';' becomes a reserved word node, a newline leaves nothing
        if (← pick 3) == 0 then newline
        else do oblank; parts := parts ++ [← kw ";"]; blank
      | none =>
        -- (`for x {` needs a `;` or newline: `{` is a reserved word only at a command position)
        match ← pick (if braces then 2 else 3) with
        | 0 => newline
        | 1 => do oblank; parts := parts ++ [← kw ";"]; blank
        | _ => blank
      parts := parts ++ [← kw (if braces then "{" else "do")]
      blank
      parts := parts ++ [← renderCList fuel b]
      parts := parts ++ [← kw (if braces then "}" else "done")]
      let sp := spanOf parts
      return .compound sp [.forN sp parts] []
    | .caseC word clauses =>
      let mut parts : List Node := [← kw "case"]
      blank
      parts := parts ++ [← renderWord body word]
      blank
      parts := parts ++ [← kw "in"]
      if (← pick 2) == 0 then newline else blank
      let n := clauses.length
      let mut i := 0
      for (paren, pats, b, sep) in clauses do
        let mut cl : List Node := []
        if paren then cl := [← kw "("]
        let mut pp : List Node := []
        let mut firstp := true
        for p in pats do
          if !firstp then pp := pp ++ [← kw "|"]
          firstp := false
          pp := pp ++ [← renderWord body p]
        cl := cl ++ [.pattern (spanOf pp) pp]
        cl := cl ++ [← kw ")"]
        let noSep := !(i + 1 < n || sep != "")
        match b with
        | some bc =>
          blank
          modify fun st => { st with inCase := st.inCase + 1 }
          let bn ← renderCmd fuel bc
          modify fun st => { st with inCase := st.inCase - 1 }
          if noSep then
            -- the newline before `esac` terminates the clause's compound_list: a list of more
            -- than one part gets the newline as an operator node
            let a ← here
            newline
            let txt := (← get).out.toList
            let nlAt := a + ((txt.drop a).takeWhile (· != '\n')).length
            match bn with
            | .list p ps => cl := cl ++ [.list (p.1, nlAt + 1) (ps ++ [.operator (nlAt, nlAt + 1) ['\n']])]
            | m => cl := cl ++ [m]
          else
            cl := cl ++ [bn]
            oblank
        | none => if noSep then newline else oblank
        parts := parts ++ [.compound (spanOf cl) cl []]
        if !noSep then
          parts := parts ++ [← kw (if sep == "" then ";;" else sep)]
          if (← pick 2) == 0 then newline else blank
        i := i + 1
      parts := parts ++ [← kw "esac"]
      let sp := spanOf parts
      return .compound sp [.caseN sp parts] []
    | .func style name b =>
      let mut parts : List Node := []
      if style != 0 then
        parts := [← kw "function"]
        blank
      let np ← emitS name
      parts := parts ++ [.word np name []]
      if style != 1 then
        oblank
        parts := parts ++ [← kw "("]
        parts := parts ++ [← kw ")"]
      if (← pick 3) == 0 then newline else blank
      let bn ← renderCmd fuel (match b with | .group x => .group x | x => .group x)
      parts := parts ++ [bn]
      let sp := spanOf parts
      return .function sp (if style == 0 then 0 else 1) (parts.length - 1) parts

/-- `compound_list` followed by its terminator (`;`, `&` or newline) and layout -/
def renderCList : Nat → Cmd → R Node
  | 0, _ => do
    let p ← emit "a"
    let o ← emit ";"
    discard <| emit " "
    return .list (p.1, o.2) [.command p [.word p ['a'] []], .operator o [';']]
  | fuel + 1, c => do
    let items : List (Cmd × Option Sep) := match c with
      | .list f rest _ => (f, none) :: rest.map (fun (s, x) => (x, some s))
      | x => [(x, none)]
    let mut parts : List Node := []
    for (x, s) in items do
      match s with
      | some sep =>
        if sep == .nl then do
          let a ← here
          newline
          -- the operator node of a newline separator covers the newline character itself
          let txt := (← get).out.toList
          let nlAt := a + ((txt.drop a).takeWhile (· != '\n')).length
          parts := parts ++ [.operator (nlAt, nlAt + 1) ['\n']]
        else do
          oblank
          parts := parts ++ [← opNode (sepText sep)]
          if sep == .andand || sep == .oror then (if (← pick 6) == 0 then newline else oblank) else blank
      | none => pure ()
      parts := parts ++ flatParts (← renderCmd fuel x)
    -- terminator
    match ← pick 3 with
    | 0 =>
      let a ← here
      newline
      let txt := (← get).out.toList
      let nlAt := a + ((txt.drop a).takeWhile (· != '\n')).length
      if parts.length > 1 then parts := parts ++ [.operator (nlAt, nlAt + 1) ['\n']]
    | 1 => do oblank; parts := parts ++ [← opNode "&"]; blank
    | _ => do oblank; parts := parts ++ [← opNode ";"]; blank
    match parts with
    | [single] => return single
    | _ => return .list (spanOf parts) parts

def renderRedir : Nat → RedirT → R Node
  | 0, _ => do let p ← emit ">x"; return .redirect p .none ['>'] (some (.word (p.1 + 1, p.2) ['x'] [])) .none none none
  | fuel + 1, r => do
    let body := fun (i : Nat) => do
      match (← get).table[i]? with
      | some b => do
        let n ← renderCmd fuel b
        match n with
        | .list .. => rtag "+substitution-body-is-a-list"
        | _ => pure ()
        pure (some n)
      | none => pure none
    let start ← here
    match r with
    | .file fd op target =>
      match fd with | some n => discard <| emit (toString n) | none => pure ()
      discard <| emit op
      -- `<` `>(..)` would read as `<>` `(`: a process substitution target needs a blank
      match target.pieces.head?, target.dq, target.sq, target.tilde with
      | some (.psub ..), false, false, none => discard <| emit " "
      | _, _, _, _ => oblank
      let w ← renderWord body target
      return .redirect (start, w.pos.2) (match fd with | some n => .num n | none => .none) op.toList (some w) .none none none
    | .dup fd op n =>
      match fd with | some k => discard <| emit (toString k) | none => pure ()
      discard <| emit op
      let p ← emit (toString n)
      return .redirect (start, p.2) (match fd with | some k => .num k | none => .none) op.toList none (.num n) none none
    | .close fd op =>
      match fd with | some k => discard <| emit (toString k) | none => pure ()
      discard <| emit op
      let p ← emit "-"
      return .redirect (start, p.2) (match fd with | some k => .num k | none => .none) op.toList none (.str ['-']) none none
end

end Bashlex.Spec

namespace Bashlex.Spec
open Bashlex

/-! ### generation of abstract trees from the choice sequence -/

def pickFrom (l : List String) : R String := do
  let i ← pick l.length
  return l.getD i "a"

def genPieces (depth : Nat) (genBody : R Nat) (plainOnly : Bool) (allowPsub : Bool := true) : R (List Piece) := do
  let n := 1 + (← pick 2) * (← pick 2)
  let mut ps : List Piece := []
  for _ in [0:n] do
    let k ← if plainOnly then pure 0 else pick 12
    let p ← match k with
      | 5 => pure (Piece.param (← pickFrom namePool).toList false)
      | 6 => pure (Piece.param (← pickFrom namePool).toList true)
      | 7 => pure (Piece.special ("0123456789$#?-!*@".toList.getD (← pick 17) '1'))
      | 8 | 9 => if depth > 0 then pure (Piece.csub (← genBody)) else pure (Piece.lit ['q'])
      | 10 => if depth > 0 && allowPsub then pure (Piece.psub ((← pick 2) == 0) (← genBody)) else pure (Piece.lit ['q'])
      | _ => pure (Piece.lit (← pickFrom litPool).toList)
    -- two adjacent parameter pieces would merge ($a followed by letters)
    ps := match ps.getLast?, p with
      | some (.param _ false), .lit _ => ps ++ [Piece.lit ['.'], p]
      | some (.param _ false), .param .. => ps ++ [Piece.lit ['-'], p]
      | _, _ => ps ++ [p]
  return ps

def genWord (depth : Nat) (genBody : R Nat) (first : Bool) : R AWord := do
  let style ← pick 10
  if style == 0 then
    return { pieces := [.lit (← pickFrom litPool).toList], sq := true }
  -- no process substitution inside double quotes (the shell does not perform it there)
  let ps ← genPieces depth genBody false (!(style == 1 || style == 2))
  -- the first word of a command must not look like an assignment, a reserved word or a comment
  let ps := if first then (match ps with | .lit s :: r => .lit ('c' :: s.filter (· != '=')) :: r | r => r) else ps
  let dq := style == 1 || style == 2
  let tilde ← if !first && style == 3 then pure (some (← pickFrom ["", "u", "bin"]).toList) else pure none
  let qtilde ← if !first && style == 4 then pure (some ((← pickFrom ["a", "u", "a b", "bin"]).toList, ← pick 3)) else pure none
  return { pieces := ps, dq := dq, tilde := tilde, qtilde := qtilde }

def genRedir (depth : Nat) (genBody : R Nat) : R RedirT := do
  let fd ← match ← pick 4 with | 0 => pure (some 2) | 1 => pure (some 10) | _ => pure none
  match ← pick 8 with
  | 0 => return .dup fd ">&" (← pick 3)
  | 1 => return .close fd (← pickFrom ["<&", ">&"])
  | 2 => return .file none (← pickFrom ["&>", "&>>"]) (← genWord depth genBody false)
  | _ => return .file fd (← pickFrom [">", "<", ">>", ">|", "<>", "<<<"]) (← genWord depth genBody false)

mutual
def genSimple : Nat → Nat → R Cmd
  | 0, _ => return .simple [] [{ pieces := [.lit ['a']] }] []
  | fuel + 1, depth => do
    let genBody : R Nat := do
      -- a substitution body: simple command or pipeline (lists are the known finding D8)
      let b ← (do if (← pick 5) == 0 then genPipeline fuel (depth - 1) else genSimple fuel (depth - 1))
      let b ← (do if (← pick 12) == 0 then pure (Cmd.list b [(.andand, ← genSimple fuel 0)] none) else pure b)
      let s ← get
      set { s with table := s.table.push b }
      return s.table.size
    let na ← (do if (← pick 4) == 0 then pick 3 else pure 0)
    let mut assigns : List (Str × AWord) := []
    for _ in [0:na] do
      let v ← genWord depth genBody false
      assigns := assigns ++ [((← pickFrom namePool).toList, { v with tilde := none, sq := false })]
    let nw ← (do if na > 0 && (← pick 3) == 0 then pure 0 else (do return 1 + (← pick 3)))
    let mut words : List AWord := []
    for i in [0:nw] do
      if i > 0 && (← pick 8) == 0 then
        -- a reserved word as a plain argument; inside a construct prefer that construct's own keywords
        let ctx := (← get).kwctx
        let w ← (do if !ctx.isEmpty && (← pick 2) == 0 then pickFrom ctx else pickFrom reservedArgs)
        words := words ++ [{ pieces := [.lit ('\u0001' :: w.toList)] }]
      else words := words ++ [← genWord depth genBody (i == 0)]
    let nr ← (do if (← pick 3) == 0 then (do return 1 + (← pick 2)) else pure 0)
    let mut redirs : List (Nat × RedirT) := []
    for _ in [0:nr] do
      redirs := redirs ++ [(← pick (nw + 1), ← genRedir depth genBody)]
    if assigns.isEmpty && words.isEmpty && redirs.isEmpty then
      return .simple [] [{ pieces := [.lit ['a']] }] []
    return .simple assigns words redirs
def genCommand : Nat → Nat → R Cmd
  | 0, _ => return .simple [] [{ pieces := [.lit ['a']] }] []
  | fuel + 1, depth => do
    if depth == 0 then return ← genSimple fuel 0
    let withKw (ws : List String) (m : R Cmd) : R Cmd := do
      let old := (← get).kwctx
      modify fun s => { s with kwctx := ws ++ old }
      let r ← m
      modify fun s => { s with kwctx := old }
      return r
    match ← pick 14 with
    | 0 => return .subshell (← genList fuel (depth - 1))
    | 1 => withKw ["}"] (do return .group (← genList fuel (depth - 1)))
    | 2 => withKw ["fi", "then", "elif", "else"] do
      let n := 1 + (← pick 3)
      let mut cl := []
      for _ in [0:n] do cl := cl ++ [(← genList fuel (depth - 1), ← genList fuel (depth - 1))]
      let els ← (do if (← pick 2) == 0 then pure (some (← genList fuel (depth - 1))) else pure none)
      return .ifC cl els
    | 3 => withKw ["done", "do"] (do return .whileC ((← pick 2) == 0) (← genList fuel (depth - 1)) (← genList fuel (depth - 1)))
    | 4 => withKw ["done", "do", "in"] do
      let ws ← (do if (← pick 3) == 0 then pure none else do
        let n ← pick 4
        let mut l := []
        for _ in [0:n] do l := l ++ [← genWord 0 (pure 0) false]
        pure (some l))
      return .forC (← pickFrom namePool).toList ws (← genList fuel (depth - 1)) ((← pick 6) == 0)
    | 5 => withKw ["esac", "in", "esac"] do
      let n ← pick 4
      let mut cl := []
      for i in [0:n] do
        let np := 1 + (← pick 2)
        let mut pats := []
        for _ in [0:np] do pats := pats ++ [{ pieces := [.lit (← pickFrom litPool).toList] }]
        let b ← (do if (← pick 5) == 0 then pure none else pure (some (← genList fuel (depth - 1))))
        let sep ← (do if i + 1 == n then pickFrom [";;", "", ";&", ";;&"] else pickFrom [";;", ";;", ";&", ";;&"])
        cl := cl ++ [((← pick 4) == 0, pats, b, sep)]
      return .caseC { pieces := [.lit (← pickFrom litPool).toList] } cl
    | 6 => return .func (← pick 3) (← pickFrom ["f", "g", "fn_1"]).toList (.group (← genList fuel (depth - 1)))
    | _ => genSimple fuel depth
def genPipeline : Nat → Nat → R Cmd
  | 0, _ => return .simple [] [{ pieces := [.lit ['a']] }] []
  | fuel + 1, depth => do
    let n ← (do if (← pick 3) == 0 then (do return 2 + (← pick 2)) else pure 1)
    let bang := (← pick 8) == 0
    let mut cs := []
    for _ in [0:n] do cs := cs ++ [← genCommand fuel depth]
    if n == 1 && !bang then return cs.headD (.simple [] [] [])
    return .pipeline bang cs
def genList : Nat → Nat → R Cmd
  | 0, _ => return .simple [] [{ pieces := [.lit ['a']] }] []
  | fuel + 1, depth => do
    let first ← genPipeline fuel depth
    let n ← (do if (← pick 3) == 0 then (do return 1 + (← pick 2)) else pure 0)
    let mut rest := []
    for _ in [0:n] do
      let s := match ← pick 5 with | 0 => Sep.andand | 1 => .oror | 2 => .amp | _ => .semi
      rest := rest ++ [(s, ← genPipeline fuel depth)]
    if rest.isEmpty then return first
    return .list first rest none
end

/-- the top level: one to three command lines -/
def genScript : R (List Node) := do
  let nlines := 1 + (← pick 3) * (← pick 2)
  let mut out : List Node := []
  if (← pick 8) == 0 then discard <| emit (← pickFrom ["\n", "  ", "# c\n", " \n"])
  for i in [0:nlines] do
    let depth ← pick 3
    let c ← genList 40 depth
    -- optional trailing ';' or '&' of a top-level list
    let c ← (do match ← pick 6 with
      | 0 => pure (match c with | .list f r _ => Cmd.list f r (some .semi) | x => Cmd.list x [] (some .semi))
      | 1 => pure (match c with | .list f r _ => Cmd.list f r (some .amp) | x => Cmd.list x [] (some .amp))
      | _ => pure c)
    out := out ++ [← renderCmd 40 c]
    if i + 1 < nlines || (← pick 2) == 0 then newline
  return out

/-- `(rendered text, expected parts, tags)` for a choice sequence -/
def roundTripCase (choices : List Nat) : Str × List Node × List String :=
  let (nodes, st) := genScript.run { ch := choices }
  (st.out.toList, nodes, st.tags)

end Bashlex.Spec
