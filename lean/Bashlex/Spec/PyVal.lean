/-
  Serialised Python values as the harness sends them (what a generic `vars(node)` walk of an
  implementation outcome prints), and the *total* conversion into the typed AST:
  `toNode : PyVal → Except String Node`.  A value the typed AST cannot represent (an attribute
  missing or of another type, a non-node where a node belongs) is reported, not coerced:
  attribute-set conformance is decided here.
-/
import Bashlex.Basic

namespace Bashlex

inductive PyVal where
  | pynone
  | int (n : Int)
  | bool (b : Bool)
  | str (s : Str)
  | tuple (l : List PyVal)
  | list (l : List PyVal)
  | obj (attrs : List (String × PyVal))      -- an `ast.node`
  | ref (i : Nat)                            -- `@i`: alias of `parts[i]` (function name/body)
  | other (ty : String)                      -- `<typename>`: any other Python object
  deriving Repr, Inhabited

namespace PyVal

/-! ### parser (driver side only; not used in any theorem) -/

structure PState where
  s : Array Char
  i : Nat := 0

abbrev P := StateT PState (Except String)

def peek : P (Option Char) := do let st ← get; return st.s[st.i]?
def adv : P Unit := modify fun st => { st with i := st.i + 1 }
def expect (c : Char) : P Unit := do
  match ← peek with
  | some d => if d == c then adv else throw s!"expected {c} got {d} at {(← get).i}"
  | Option.none => throw s!"expected {c} got EOF"

partial def pIdent (acc : String := "") : P String := do
  match ← peek with
  | some c => if c.isAlphanum || c == '_' then do adv; pIdent (acc.push c) else return acc
  | Option.none => return acc

def hexVal (c : Char) : Nat :=
  if '0' ≤ c && c ≤ '9' then c.toNat - 48 else if 'a' ≤ c && c ≤ 'f' then c.toNat - 87
  else if 'A' ≤ c && c ≤ 'F' then c.toNat - 55 else 0

partial def pHex (acc : Nat := 0) : P Nat := do
  match ← peek with
  | some '}' => adv; return acc
  | some c => adv; pHex (16 * acc + hexVal c)
  | Option.none => throw "EOF in \\u{"

partial def pStrBody (acc : Array Char := #[]) : P Str := do
  match ← peek with
  | Option.none => throw "EOF in string"
  | some '"' => adv; return acc.toList
  | some '\\' =>
    adv
    match ← peek with
    | some 'n' => adv; pStrBody (acc.push '\n')
    | some 't' => adv; pStrBody (acc.push '\t')
    | some 'u' => adv; expect '{'; let n ← pHex; pStrBody (acc.push (Char.ofNat n))
    | some c => adv; pStrBody (acc.push c)
    | Option.none => throw "EOF after backslash"
  | some c => adv; pStrBody (acc.push c)

partial def pNat (acc : Nat := 0) : P Nat := do
  match ← peek with
  | some c => if c.isDigit then do adv; pNat (10 * acc + (c.toNat - 48)) else return acc
  | Option.none => return acc

mutual
partial def pVal : P PyVal := do
  match ← peek with
  | some '{' => adv; pAttrs []
  | some '[' => adv; return .list (← pSeq ']' [])
  | some '(' => adv; return .tuple (← pSeq ')' [])
  | some '"' => adv; return .str (← pStrBody)
  | some '@' => adv; return .ref (← pNat)
  | some '<' =>
    adv
    let n ← pIdent
    expect '>'
    return .other n
  | some '-' => adv; return .int (-(← pNat : Nat))
  | some c =>
    if c.isDigit then return .int (← pNat)
    else
      let w ← pIdent
      if w == "None" then return .pynone
      else if w == "b" then do
        expect ':'
        let v ← pIdent
        return .bool (v == "True")
      else throw s!"unexpected word '{w}' at {(← get).i}"
  | Option.none => throw "unexpected EOF"
partial def pSeq (close : Char) (acc : List PyVal) : P (List PyVal) := do
  match ← peek with
  | some c =>
    if c == close then do adv; return acc.reverse
    else if c == ',' then do adv; pSeq close acc
    else do let v ← pVal; pSeq close (v :: acc)
  | Option.none => throw "EOF in sequence"
partial def pAttrs (acc : List (String × PyVal)) : P PyVal := do
  match ← peek with
  | some '}' => adv; return .obj acc.reverse
  | some ',' => adv; pAttrs acc
  | some _ =>
    let k ← pIdent
    expect '='
    let v ← pVal
    pAttrs ((k, v) :: acc)
  | Option.none => throw "EOF in object"
end

def parse (s : String) : Except String PyVal :=
  match (pVal.run { s := s.toList.toArray }) with
  | .ok (v, st) => if st.i == st.s.size then .ok v else .error s!"trailing input at {st.i}"
  | .error e => .error e

/-! ### typed conversion (total) -/

def attr? (attrs : List (String × PyVal)) (k : String) : Option PyVal :=
  (attrs.find? (·.1 == k)).map (·.2)

def asSpan : PyVal → Except String Span
  | .tuple [.int a, .int b] =>
    if 0 ≤ a ∧ 0 ≤ b then .ok (a.toNat, b.toNat) else .error s!"negative span ({a},{b})"
  | _ => .error "pos is not a pair of integers"

def asStr (what : String) : PyVal → Except String Str
  | .str s => .ok s
  | _ => .error s!"{what} is not a string"

def asRedirIn (what : String) : PyVal → Except String RedirIn
  | .pynone => .ok .none
  | .int n => if 0 ≤ n then .ok (.num n.toNat) else .error s!"{what} negative"
  | .str s => .ok (.str s)
  | _ => .error s!"{what} is neither int, str nor None"

def expectAttrs (kind : String) (attrs : List (String × PyVal)) (names : List String) :
    Except String Unit :=
  let have_ := attrs.map (·.1)
  if names.all have_.contains && have_.all names.contains && have_.length == names.length then .ok ()
  else .error s!"{kind}: attributes {have_} ≠ {names}"

mutual
/-- `toNode v`: the typed node denoted by `v`, or why there is none -/
def toNodeF : Nat → PyVal → Except String Node
  | 0, _ => throw "nesting too deep"
  | fuel + 1, .obj attrs => do
    let kind ← match attr? attrs "kind" with
      | some (.str k) => pure (String.ofList k)
      | _ => throw "node without string kind"
    let pos ← match attr? attrs "pos" with
      | some p => asSpan p
      | Option.none => throw s!"{kind}: no pos"
    let partsOf : Except String (List Node) :=
      match attr? attrs "parts" with
      | some (.list l) => toNodesF fuel l
      | some _ => throw "parts is not a list"
      | Option.none => throw "no parts"
    let need (names : List String) := expectAttrs kind attrs ("kind" :: "pos" :: names)
    let strA (k : String) : Except String Str :=
      match attr? attrs k with | some v => asStr s!"{kind}.{k}" v | Option.none => throw s!"{kind}: no {k}"
    match kind with
    | "operator" => do need ["op"]; pure (.operator pos (← strA "op"))
    | "reservedword" => do need ["word"]; pure (.reservedword pos (← strA "word"))
    | "pipe" => do need ["pipe"]; pure (.pipe pos (← strA "pipe"))
    | "parameter" => do need ["value"]; pure (.parameter pos (← strA "value"))
    | "tilde" => do need ["value"]; pure (.tilde pos (← strA "value"))
    | "heredoc" => do need ["value"]; pure (.heredoc pos (← strA "value"))
    | "list" => do need ["parts"]; pure (.list pos (← partsOf))
    | "pipeline" => do need ["parts"]; pure (.pipeline pos (← partsOf))
    | "if" => do need ["parts"]; pure (.ifN pos (← partsOf))
    | "for" => do need ["parts"]; pure (.forN pos (← partsOf))
    | "while" => do need ["parts"]; pure (.whileN pos (← partsOf))
    | "until" => do need ["parts"]; pure (.untilN pos (← partsOf))
    | "case" => do need ["parts"]; pure (.caseN pos (← partsOf))
    | "pattern" => do need ["parts"]; pure (.pattern pos (← partsOf))
    | "command" => do need ["parts"]; pure (.command pos (← partsOf))
    | "unimplemented" => do need ["parts"]; pure (.unimplemented pos (← partsOf))
    | "word" => do need ["word", "parts"]; pure (.word pos (← strA "word") (← partsOf))
    | "assignment" => do need ["word", "parts"]; pure (.assignment pos (← strA "word") (← partsOf))
    | "compound" => do
      need ["list", "redirects"]
      let l ← match attr? attrs "list" with | some (.list l) => toNodesF fuel l | _ => throw "compound.list is not a list"
      let r ← match attr? attrs "redirects" with | some (.list l) => toNodesF fuel l | _ => throw "compound.redirects is not a list"
      pure (.compound pos l r)
    | "function" => do
      need ["name", "body", "parts"]
      let ps ← partsOf
      let ni ← match attr? attrs "name" with | some (.ref i) => pure i | _ => throw "function.name is not one of its parts"
      let bi ← match attr? attrs "body" with | some (.ref i) => pure i | _ => throw "function.body is not one of its parts"
      pure (.function pos ni bi ps)
    | "commandsubstitution" => do
      need ["command"]
      match attr? attrs "command" with
      | some c => pure (.commandsubstitution pos (← toNodeF fuel c))
      | Option.none => throw "no command"
    | "processsubstitution" => do
      need ["command"]
      match attr? attrs "command" with
      | some c => pure (.processsubstitution pos (← toNodeF fuel c))
      | Option.none => throw "no command"
    | "redirect" => do
      need ["input", "type", "output", "heredoc"]
      let inp ← match attr? attrs "input" with | some v => asRedirIn "redirect.input" v | Option.none => throw "no input"
      let ty ← strA "type"
      let (o, oa) ← match attr? attrs "output" with
        | some (.obj a) => do let n ← toNodeF fuel (.obj a); pure (some n, RedirIn.none)
        | some v => do let x ← asRedirIn "redirect.output" v; pure (Option.none, x)
        | Option.none => throw "no output"
      let h ← match attr? attrs "heredoc" with
        | some .pynone => pure Option.none
        | some (.obj a) => do let n ← toNodeF fuel (.obj a); pure (some n)
        | _ => throw "redirect.heredoc is neither a node nor None"
      pure ((.redirect pos inp ty o oa h Option.none))
    | k => throw s!"unknown node kind {k}"
  | _ + 1, .pynone => throw "None where a node belongs"
  | _ + 1, .str _ => throw "a string where a node belongs"
  | _ + 1, .int _ => throw "an int where a node belongs"
  | _ + 1, .bool _ => throw "a bool where a node belongs"
  | _ + 1, .tuple _ => throw "a tuple where a node belongs"
  | _ + 1, .list _ => throw "a list where a node belongs"
  | _ + 1, .ref _ => throw "an alias where a node belongs"
  | _ + 1, .other t => throw s!"a {t} object where a node belongs"
def toNodesF : Nat → List PyVal → Except String (List Node)
  | 0, _ => throw "nesting too deep"
  | _, [] => pure []
  | fuel + 1, v :: vs => do let n ← toNodeF fuel v; let ns ← toNodesF fuel vs; pure (n :: ns)
end

def toNode (v : PyVal) : Except String Node := toNodeF 4096 v
def toNodes (l : List PyVal) : Except String (List Node) := toNodesF 4096 l

end PyVal
end Bashlex
