/-
  Basic types shared by the whole model of bashlex.

  Conventions (see DESIGN.md §4.1):
  * strings are `List Char` (`Str`) with Python slicing semantics;
  * Python behaviour outside the documented contract (TypeError, IndexError, ...) is an
    explicit outcome `Exn.foreign`, never hidden by a totalised accessor;
  * loops are structural recursion on fuel; running out of fuel is the outcome `Exn.outOfFuel`.
  This file imports nothing outside core Lean.
-/
namespace Bashlex

abbrev Str := List Char
abbrev Span := Nat × Nat

/-! ## Python-like string helpers -/
namespace Str

/-- `s[a:b]` with `0 ≤ a`, Python clamping. -/
def slice (s : Str) (a b : Nat) : Str := (s.take b).drop a
/-- `s[a:]` -/
def sliceFrom (s : Str) (a : Nat) : Str := s.drop a
/-- `s[i]` for `0 ≤ i`, `none` when Python would raise IndexError. -/
def at? (s : Str) (i : Nat) : Option Char := s[i]?
/-- `s[-1]` -/
def last? (s : Str) : Option Char := s.getLast?

/-- `s.find(c, start)`: index of the first `c` at or after `start`. -/
def findFrom (s : Str) (c : Char) (start : Nat) : Option Nat :=
  go (s.drop start) start
where
  go : Str → Nat → Option Nat
    | [], _ => none
    | x :: xs, i => if x == c then some i else go xs (i + 1)

def ofString (s : String) : Str := s.toList
def toString (s : Str) : String := String.ofList s

end Str

/-! ## character classes (exact on ASCII; non-ASCII is outside the correspondence domain) -/
def isDigit (c : Char) : Bool := '0' ≤ c && c ≤ '9'
def isLowerAscii (c : Char) : Bool := 'a' ≤ c && c ≤ 'z'
def isUpperAscii (c : Char) : Bool := 'A' ≤ c && c ≤ 'Z'
def isAlpha (c : Char) : Bool := isLowerAscii c || isUpperAscii c
def isAlnum (c : Char) : Bool := isAlpha c || isDigit c

/-- `sh_syntaxtab` classes, as set up by the `_addsyntax` calls of tokenizer.py.
    (`Gen/Lex.lean` re-derives these from the live table and a `decide` checks agreement.) -/
structure SynClass where
  dquote : Bool := false
  metac : Bool := false
  quote : Bool := false
  exp : Bool := false
  brk : Bool := false
  deriving DecidableEq, Repr, Inhabited

def synClass (c : Char) : SynClass :=
  { dquote := c == '\\' || c == '`' || c == '$' || c == '"' || c == '\n'
    metac := c == '(' || c == ')' || c == '<' || c == '>' || c == ';' || c == '&' || c == '|'
    quote := c == '"' || c == '`' || c == '\''
    exp := c == '$' || c == '<' || c == '>'
    brk := c == '(' || c == ')' || c == '<' || c == '>' || c == ';' || c == '&' || c == '|'
            || c == ' ' || c == '\t' || c == '\n' }

def shellblank (c : Char) : Bool := c == ' ' || c == '\t'

/-! ## token types (tokenizer.tokentype) -/
inductive TokType where
  | IF | THEN | ELSE | ELIF | FI | CASE | ESAC | FOR | SELECT | WHILE | UNTIL | DO | DONE
  | FUNCTION | COPROC | COND_START | COND_END | IN | BANG | TIME | TIMEOPT | TIMEIGN
  | WORD | ASSIGNMENT_WORD | REDIR_WORD | NUMBER | ARITH_CMD | ARITH_FOR_EXPRS | COND_CMD
  | AND_AND | OR_OR | GREATER_GREATER | LESS_LESS | LESS_AND | LESS_LESS_LESS | GREATER_AND
  | SEMI_SEMI | SEMI_AND | SEMI_SEMI_AND | LESS_LESS_MINUS | AND_GREATER | AND_GREATER_GREATER
  | LESS_GREATER | GREATER_BAR | BAR_AND | LEFT_CURLY | RIGHT_CURLY | EOF | LEFT_PAREN
  | RIGHT_PAREN | BAR | SEMICOLON | DASH | NEWLINE | LESS | GREATER | AMPERSAND
  deriving DecidableEq, Repr, Inhabited

namespace TokType

def all : List TokType :=
  [IF, THEN, ELSE, ELIF, FI, CASE, ESAC, FOR, SELECT, WHILE, UNTIL, DO, DONE,
   FUNCTION, COPROC, COND_START, COND_END, IN, BANG, TIME, TIMEOPT, TIMEIGN,
   WORD, ASSIGNMENT_WORD, REDIR_WORD, NUMBER, ARITH_CMD, ARITH_FOR_EXPRS, COND_CMD,
   AND_AND, OR_OR, GREATER_GREATER, LESS_LESS, LESS_AND, LESS_LESS_LESS, GREATER_AND,
   SEMI_SEMI, SEMI_AND, SEMI_SEMI_AND, LESS_LESS_MINUS, AND_GREATER, AND_GREATER_GREATER,
   LESS_GREATER, GREATER_BAR, BAR_AND, LEFT_CURLY, RIGHT_CURLY, EOF, LEFT_PAREN,
   RIGHT_PAREN, BAR, SEMICOLON, DASH, NEWLINE, LESS, GREATER, AMPERSAND]

def name : TokType → String
  | IF => "IF" | THEN => "THEN" | ELSE => "ELSE" | ELIF => "ELIF" | FI => "FI" | CASE => "CASE"
  | ESAC => "ESAC" | FOR => "FOR" | SELECT => "SELECT" | WHILE => "WHILE" | UNTIL => "UNTIL"
  | DO => "DO" | DONE => "DONE" | FUNCTION => "FUNCTION" | COPROC => "COPROC"
  | COND_START => "COND_START" | COND_END => "COND_END" | IN => "IN" | BANG => "BANG"
  | TIME => "TIME" | TIMEOPT => "TIMEOPT" | TIMEIGN => "TIMEIGN" | WORD => "WORD"
  | ASSIGNMENT_WORD => "ASSIGNMENT_WORD" | REDIR_WORD => "REDIR_WORD" | NUMBER => "NUMBER"
  | ARITH_CMD => "ARITH_CMD" | ARITH_FOR_EXPRS => "ARITH_FOR_EXPRS" | COND_CMD => "COND_CMD"
  | AND_AND => "AND_AND" | OR_OR => "OR_OR" | GREATER_GREATER => "GREATER_GREATER"
  | LESS_LESS => "LESS_LESS" | LESS_AND => "LESS_AND" | LESS_LESS_LESS => "LESS_LESS_LESS"
  | GREATER_AND => "GREATER_AND" | SEMI_SEMI => "SEMI_SEMI" | SEMI_AND => "SEMI_AND"
  | SEMI_SEMI_AND => "SEMI_SEMI_AND" | LESS_LESS_MINUS => "LESS_LESS_MINUS"
  | AND_GREATER => "AND_GREATER" | AND_GREATER_GREATER => "AND_GREATER_GREATER"
  | LESS_GREATER => "LESS_GREATER" | GREATER_BAR => "GREATER_BAR" | BAR_AND => "BAR_AND"
  | LEFT_CURLY => "LEFT_CURLY" | RIGHT_CURLY => "RIGHT_CURLY" | EOF => "EOF"
  | LEFT_PAREN => "LEFT_PAREN" | RIGHT_PAREN => "RIGHT_PAREN" | BAR => "BAR"
  | SEMICOLON => "SEMICOLON" | DASH => "DASH" | NEWLINE => "NEWLINE" | LESS => "LESS"
  | GREATER => "GREATER" | AMPERSAND => "AMPERSAND"

/-- the string value of the enum member, for the members whose value is a string
    (these are the members `_readtoken` returns bare; `token()` uses `.value` as token value) -/
def strValue : TokType → Option String
  | BANG => some "!" | AND_AND => some "&&" | OR_OR => some "||" | GREATER_GREATER => some ">>"
  | LESS_LESS => some "<<" | LESS_AND => some "<&" | LESS_LESS_LESS => some "<<<"
  | GREATER_AND => some ">&" | SEMI_SEMI => some ";;" | SEMI_AND => some ";&"
  | SEMI_SEMI_AND => some ";;&" | LESS_LESS_MINUS => some "<<-" | AND_GREATER => some "&>"
  | AND_GREATER_GREATER => some "&>>" | LESS_GREATER => some "<>" | GREATER_BAR => some ">|"
  | BAR_AND => some "|&" | EOF => some "$end" | LEFT_PAREN => some "(" | RIGHT_PAREN => some ")"
  | BAR => some "|" | SEMICOLON => some ";" | DASH => some "-" | NEWLINE => some "\n"
  | LESS => some "<" | GREATER => some ">" | AMPERSAND => some "&"
  | _ => none

/-- `tokentype(c)` for a one-character string (enum lookup by value); `none` = ValueError -/
def ofChar (c : Char) : Option TokType :=
  match c with
  | '!' => some BANG | '(' => some LEFT_PAREN | ')' => some RIGHT_PAREN | '|' => some BAR
  | ';' => some SEMICOLON | '-' => some DASH | '\n' => some NEWLINE | '<' => some LESS
  | '>' => some GREATER | '&' => some AMPERSAND
  | _ => none

/-- the name the LR engine sees (`token.type`): `$end` for EOF -/
def yaccName (t : TokType) : String := if t = EOF then "$end" else t.name

end TokType

/-- `tokenizer._reserved` (token types part) -/
def reservedTypes : List TokType :=
  [.AND_AND, .BANG, .BAR_AND, .DO, .DONE, .ELIF, .ELSE, .ESAC, .FI, .IF, .OR_OR, .SEMI_SEMI,
   .SEMI_AND, .SEMI_SEMI_AND, .THEN, .TIME, .TIMEOPT, .TIMEIGN, .COPROC, .UNTIL, .WHILE]
/-- `tokenizer._reserved` (the characters added by the loop) -/
def reservedChars : List Char := ['\n', ';', '(', ')', '|', '&', '{', '}']

/-- `valid_reserved_first_command` -/
def reservedFirstCommand : List (String × TokType) :=
  [("if", .IF), ("then", .THEN), ("else", .ELSE), ("elif", .ELIF), ("fi", .FI), ("case", .CASE),
   ("esac", .ESAC), ("for", .FOR), ("select", .SELECT), ("while", .WHILE), ("until", .UNTIL),
   ("do", .DO), ("done", .DONE), ("in", .IN), ("function", .FUNCTION), ("time", .TIME),
   ("{", .LEFT_CURLY), ("}", .RIGHT_CURLY), ("!", .BANG), ("[[", .COND_START),
   ("]]", .COND_END), ("coproc", .COPROC)]

/-! ## flags -/
inductive WordFlag where
  | HASDOLLAR | QUOTED | ASSIGNMENT | NOSPLIT | NOGLOB | COMPASSIGN | ITILDE
  | DQUOTE | NOPROCSUB | NOTILDE | NOCOMSUB | ASSIGNRHS | TILDEEXP
  deriving DecidableEq, Repr, Inhabited

def WordFlag.name : WordFlag → String
  | .HASDOLLAR => "HASDOLLAR" | .QUOTED => "QUOTED" | .ASSIGNMENT => "ASSIGNMENT"
  | .NOSPLIT => "NOSPLIT" | .NOGLOB => "NOGLOB" | .COMPASSIGN => "COMPASSIGN"
  | .ITILDE => "ITILDE" | .DQUOTE => "DQUOTE" | .NOPROCSUB => "NOPROCSUB"
  | .NOTILDE => "NOTILDE" | .NOCOMSUB => "NOCOMSUB" | .ASSIGNRHS => "ASSIGNRHS"
  | .TILDEEXP => "TILDEEXP"

/-- a set of word flags (kept duplicate-free by `addFlag`) -/
abbrev WordFlags := List WordFlag
def addFlag (fs : WordFlags) (f : WordFlag) : WordFlags := if fs.contains f then fs else fs ++ [f]

/-- `state.parserstate()`: the flags of `flags.parser` the code reads or writes -/
structure PState where
  casepat : Bool := false
  allowopnbrc : Bool := false
  dblparen : Bool := false
  subshell : Bool := false
  cmdsubst : Bool := false
  casestmt : Bool := false
  condcmd : Bool := false
  condexpr : Bool := false
  compassign : Bool := false
  assignok : Bool := false
  eoftoken : Bool := false
  regexp : Bool := false
  redirlist : Bool := false
  deriving DecidableEq, Repr, Inhabited

/-! ## tokens -/
inductive TVal where
  | none | str (s : Str) | int (n : Nat)
  deriving DecidableEq, Repr, Inhabited

structure Token where
  ttype : Option TokType := none
  value : TVal := .none
  pos : Option Span := none
  flags : WordFlags := []
  deriving DecidableEq, Repr, Inhabited

namespace Token
/-- `token(None, None)` -/
def null : Token := {}
/-- `bool(token)` -/
def truthy (t : Token) : Bool := !(t.ttype.isNone && t.value == .none)
def lexpos (t : Token) : Nat := (t.pos.getD (0, 0)).1
def endlexpos (t : Token) : Nat := (t.pos.getD (0, 0)).2
def valueStr (t : Token) : Str := match t.value with | .str s => s | _ => []
def is (t : Token) (ty : TokType) : Bool := t.ttype == some ty
end Token

/-! ## AST -/
inductive RedirIn where
  | none | num (n : Nat) | str (s : Str)
  deriving DecidableEq, Repr, Inhabited

/-- One constructor per node kind (typed fields: attribute-set conformance is a fact of the type).
    `hid`: a `<<` redirect is a mutable object while its parser runs (`makeheredoc` rewrites
    `.pos` and `.heredoc` after the node sits in the tree); while `hid = some i` its current
    `pos`/`heredoc` live in the parser's redirect store under `i`. -/
inductive Node where
  | operator (pos : Span) (op : Str)
  | reservedword (pos : Span) (word : Str)
  | pipe (pos : Span) (pipe : Str)
  | list (pos : Span) (parts : List Node)
  | pipeline (pos : Span) (parts : List Node)
  | compound (pos : Span) (list : List Node) (redirects : List Node)
  | ifN (pos : Span) (parts : List Node)
  | forN (pos : Span) (parts : List Node)
  | whileN (pos : Span) (parts : List Node)
  | untilN (pos : Span) (parts : List Node)
  | caseN (pos : Span) (parts : List Node)
  | pattern (pos : Span) (parts : List Node)
  | command (pos : Span) (parts : List Node)
  | function (pos : Span) (nameIdx : Nat) (bodyIdx : Nat) (parts : List Node)
  | redirect (pos : Span) (input : RedirIn) (type : Str) (outNode : Option Node)
      (outAlt : RedirIn) (heredoc : Option Node) (hid : Option Nat)
  | word (pos : Span) (word : Str) (parts : List Node)
  | assignment (pos : Span) (word : Str) (parts : List Node)
  | parameter (pos : Span) (value : Str)
  | tilde (pos : Span) (value : Str)
  | heredoc (pos : Span) (value : Str)
  | commandsubstitution (pos : Span) (command : Node)
  | processsubstitution (pos : Span) (command : Node)
  | unimplemented (pos : Span) (parts : List Node)
  deriving Repr, Inhabited

namespace Node

def kind : Node → String
  | operator .. => "operator" | reservedword .. => "reservedword" | pipe .. => "pipe"
  | list .. => "list" | pipeline .. => "pipeline" | compound .. => "compound"
  | ifN .. => "if" | forN .. => "for" | whileN .. => "while" | untilN .. => "until"
  | caseN .. => "case" | pattern .. => "pattern" | command .. => "command"
  | function .. => "function" | redirect .. => "redirect" | word .. => "word"
  | assignment .. => "assignment" | parameter .. => "parameter" | tilde .. => "tilde"
  | heredoc .. => "heredoc" | commandsubstitution .. => "commandsubstitution"
  | processsubstitution .. => "processsubstitution" | unimplemented .. => "unimplemented"

/-- the `pos` attribute as stored in the node (for a pending here-document redirect the current
    value is in the store, see `Local.redirPos`) -/
def pos : Node → Span
  | operator p _ | reservedword p _ | pipe p _ | list p _ | pipeline p _ | compound p _ _
  | ifN p _ | forN p _ | whileN p _ | untilN p _ | caseN p _ | pattern p _ | command p _
  | function p _ _ _ | redirect p _ _ _ _ _ _ | word p _ _ | assignment p _ _ | parameter p _
  | tilde p _ | heredoc p _ | commandsubstitution p _ | processsubstitution p _
  | unimplemented p _ => p

def setPos (n : Node) (q : Span) : Node :=
  match n with
  | operator _ a => operator q a | reservedword _ a => reservedword q a | pipe _ a => pipe q a
  | list _ a => list q a | pipeline _ a => pipeline q a | compound _ a b => compound q a b
  | ifN _ a => ifN q a | forN _ a => forN q a | whileN _ a => whileN q a | untilN _ a => untilN q a
  | caseN _ a => caseN q a | pattern _ a => pattern q a | command _ a => command q a
  | function _ a b c => function q a b c
  | redirect _ a b c d e f => redirect q a b c d e f
  | word _ a b => word q a b | assignment _ a b => assignment q a b | parameter _ a => parameter q a
  | tilde _ a => tilde q a | heredoc _ a => heredoc q a
  | commandsubstitution _ a => commandsubstitution q a
  | processsubstitution _ a => processsubstitution q a | unimplemented _ a => unimplemented q a

end Node

/-! ## exceptions and outcomes -/
inductive Exn where
  /-- `errors.ParsingError(message, s, position)` (including `MatchedPairError`) -/
  | parsing (msg : String) (src : Str) (pos : Int)
  | notImplemented (what : String)
  /-- any other Python exception: type name and the bashlex function raising it -/
  | foreign (ty : String) (site : String)
  | outOfFuel (site : String)
  deriving DecidableEq, Repr, Inhabited

/-- `ParsingError.__init__` asserts `position <= len(s)`; a failing assert is an AssertionError -/
def mkParsingError (msg : String) (src : Str) (pos : Int) : Exn :=
  if pos ≤ (src.length : Int) then .parsing msg src pos
  else .foreign "AssertionError" "ParsingError.__init__"

end Bashlex
