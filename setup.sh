#!/bin/sh
# Build the framework from files on disk only (offline): regenerate Gen/ from /repo, build the
# Lean library (kernel-checks every theorem, about 15 min from scratch on 16 cores) and the model driver.
set -e
cd "$(dirname "$0")"
/venv/bin/python tools/extract.py --repo "${VERIF_REPO:-/repo}"
cd lean
lake build driver
lake build Bashlex
