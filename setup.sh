#!/bin/sh
# Build the framework from files on disk only (offline): regenerate Gen/ from /repo, build the
# Lean library (kernel-checks every theorem, ~3-4 min from scratch) and the model driver.
set -e
cd "$(dirname "$0")"
/venv/bin/python tools/extract.py --repo "${VERIF_REPO:-/repo}"
cd lean
lake build driver
lake build Bashlex
