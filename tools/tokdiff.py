#!/venv/bin/python
"""Differential test: bashlex/tokenizer.py (ground truth) against the Lean model (tokdriver).

usage: /venv/bin/python /verif/tools/tokdiff.py [--corpus] [--maxlen N] [--random N --seed S]
                                               [--procs 16] [--show 20]
Both sides print one canonical line per input (format: see /verif/lean/TokDriver.lean);
the lines must be equal.  Exit code 1 on any mismatch.
"""
import argparse, ast as pyast, glob, itertools, os, random, signal, subprocess, sys
import multiprocessing

sys.path.insert(0, '/repo')
from bashlex import tokenizer as T, state, errors, flags, ast as bast
import bashlex

TOKDRIVER = os.environ.get('TOKDRIVER', '/verif/lean/.lake/build/bin/tokdriver')
BASHLEX_DIR = os.path.dirname(os.path.abspath(bashlex.__file__))

ALPHABET = ['a', 'b', '=', '1', '$', '{', '}', '(', ')', '<', '>', '|', '&', ';', '!', '#',
            "'", '"', '`', '\\', '-', '~', ' ', '\n']
KEYWORDS = ['case', 'esac', 'in', 'do', 'done', 'for', 'if', 'then', 'fi', 'function', 'while',
            'select', 'time', 'coproc', '<<E', '<<E ', '<<-E', 'A', '\nE\n']
TT = T.tokentype


class Timeout(Exception):
    pass


def _alarm(signum, frame):
    raise Timeout()


def hexs(s):
    return '.'.join('%x' % ord(c) for c in s)


def show_token(t):
    ty = t.ttype.name if t.ttype is not None else 'None'
    v = t.value
    if v is None:
        vs = 'None'
    elif isinstance(v, int):
        vs = 'i%d' % v
    else:
        vs = hexs(v)
    flags = '+'.join(sorted(f.name for f in t.flags))
    return '%s:%s:%s:%s:%s' % (ty, t.lexpos, t.endlexpos, vs, flags)


def snapshot(tok, cells):
    cs = []
    for n in cells:
        if n.heredoc is None:
            cs.append('%d,%d,-' % (n.pos[0], n.pos[1]))
        else:
            h = n.heredoc
            cs.append('%d,%d,%d,%d,%s' % (n.pos[0], n.pos[1], h.pos[0], h.pos[1], hexs(h.value)))
    flags = '+'.join(sorted(f.name for f in tok._parserstate)) or '-'
    return (';'.join(cs) or '-', flags, tok._open_brace_count, tok._esacs_needed_count)


def foreign_site(e):
    """name of the innermost bashlex function on the traceback"""
    tb = e.__traceback__
    name = '?'
    while tb is not None:
        code = tb.tb_frame.f_code
        if os.path.abspath(code.co_filename).startswith(BASHLEX_DIR):
            q = code.co_qualname
            q = q.split('.<locals>.')[-1]
            parts = q.split('.')
            if parts[-1] == '__init__' and len(parts) >= 2:
                name = '.'.join(parts[-2:])
            else:
                name = parts[-1]
        tb = tb.tb_next
    return name


CONFIGS = ['', 'nonstrict', 'REGEXP', 'DBLPAREN', 'CONDEXPR', 'COMPASSIGN', 'REDIRLIST',
           'EOFTOKEN', 'CASEPAT', 'ALLOWOPNBRC', 'SUBSHELL', 'CASEPAT+COMPASSIGN+nonstrict']
ACTIVE_CONFIGS = ['']


def run_python(s, cfg='', timeout=2.0):
    """canonical result line of the real tokenizer (with the mini-parser rule);
    cfg: '+'-separated initial parser-state flags and/or 'nonstrict'"""
    names = [n for n in cfg.split('+') if n]
    strict = 'nonstrict' not in names
    ps0 = state.parserstate()
    for n in names:
        if n != 'nonstrict':
            ps0.add(flags.parser[n])
    before = set(T.sh_syntaxtab.keys())
    toks = []
    cells = []
    tok = None
    snap = ('-', '-', 0, 0)
    signal.setitimer(signal.ITIMER_REAL, timeout)
    try:
        try:
            tok = T.tokenizer(s, ps0, strictmode=strict)
            outcome = 'CAP'
            for _ in range(10000):
                snap = snapshot(tok, cells)
                t = tok.token()
                toks.append(t)
                prev = tok._last_read_token
                if t.ttype == TT.WORD and prev.ttype in (TT.LESS_LESS, TT.LESS_LESS_MINUS):
                    redirnode = bast.node(
                        kind='redirect', input=None, type=prev.value, heredoc=None,
                        output=bast.node(kind='word', word=t.value, parts=[],
                                         pos=(t.lexpos, t.endlexpos)),
                        pos=(prev.lexpos, t.endlexpos))
                    tok.redirstack.append((redirnode, prev.ttype == TT.LESS_LESS_MINUS))
                    cells.append(redirnode)
                if t.ttype == TT.EOF:
                    outcome = 'EOF'
                    break
            snap = snapshot(tok, cells)
        finally:
            signal.setitimer(signal.ITIMER_REAL, 0)
    except Timeout:
        outcome = 'TIMEOUT'
    except errors.ParsingError as e:
        outcome = 'PE:%s:%s:%d' % (hexs(e.message), hexs(e.s), e.position)
    except RecursionError:
        outcome = 'F:RecursionError:?'
    except Exception as e:
        outcome = 'F:%s:%s' % (type(e).__name__, foreign_site(e))
    after = set(T.sh_syntaxtab.keys())
    new = sorted(after - before)
    for k in new:
        del T.sh_syntaxtab[k]
    touched = '.'.join('%x' % ord(k) for k in new) or '-'
    idx = tok._shell_input_line_index if tok is not None else 0
    return '%s | %s | %s | %s %d %d %d %s' % (
        ' '.join(show_token(t) for t in toks), outcome, snap[0], snap[1], snap[2], snap[3],
        idx, touched)


def run_lean(items):
    data = ''.join((cfg + '/' if cfg else '') + hexs(s) + '\n' for cfg, s in items)
    p = subprocess.run([TOKDRIVER], input=data.encode('ascii'), stdout=subprocess.PIPE, check=True)
    lines = p.stdout.decode('ascii').split('\n')
    if lines and lines[-1] == '':
        lines.pop()
    assert len(lines) == len(items), (len(lines), len(items))
    return lines


def init_worker(configs):
    global ACTIVE_CONFIGS
    ACTIVE_CONFIGS = configs


def compare(inputs):
    """returns (n, mismatches, timeouts, outcome histogram)"""
    signal.signal(signal.SIGALRM, _alarm)
    items = [(cfg, s) for s in inputs for cfg in ACTIVE_CONFIGS]
    py = [run_python(s, cfg) for cfg, s in items]
    le = run_lean(items)
    mism, touts = [], []
    hist = {}
    for s, a, b in zip(items, py, le):
        oa = a.split(' | ')[1]
        ob = b.split(' | ')[1]
        key = oa.split(':')[0] if not oa.startswith('F:') else oa
        hist[key] = hist.get(key, 0) + 1
        if oa == 'TIMEOUT':
            touts.append((s, a, b))
            if ob != 'FUEL':
                mism.append((s, a, b))
        elif a != b:
            mism.append((s, a, b))
    return len(items), mism, touts, hist


# ---------------------------------------------------------------- input generators

def shard_exhaustive(args):
    prefix, maxlen = args
    if prefix is None:                      # all strings shorter than 2
        inputs = [''] + list(ALPHABET)
        if maxlen < 1:
            inputs = ['']
        return compare(inputs)
    inputs = []
    for n in range(0, maxlen - len(prefix) + 1):
        for tail in itertools.product(ALPHABET, repeat=n):
            inputs.append(prefix + ''.join(tail))
    return compare(inputs)


def exhaustive_tasks(maxlen):
    tasks = [(None, maxlen)]
    if maxlen >= 2:
        for a in ALPHABET:
            for b in ALPHABET:
                tasks.append((a + b, maxlen))
    return tasks


FRAGMENTS = ['"', '"', "'", '`', '${', '${a', '$(', '$(', '}', ')', ')', "$'", '$"', '$[', ']', '\\',
             '\\\n', 'a', 'b', '1', ':-', '#', '/', '%', '{', '{ ', ' }', '$', '$$', ' ', ' ', '\n',
             '\n', '\t', ';', ';;', ';&', '&', '&&', '|', '<', '>', '<<', '<<-', '<<<', '<(', '>(',
             '<<E', '<<E ', '<<-E', 'A', "<<'E'", '<<"E"', '<<\\E', '\nE\n', '\n\tE\n', 'E', 'case', 'case x in',
             'esac', 'in', 'a)', '(a)', 'do', 'do ', 'done', '$( (', 'E)', 'case x in a)', 'for', 'for i in', 'if', 'then', 'fi',
             'function', 'function ', '{a}', '{a}>', 'f()', 'time', '-p', '--', 'coproc', 'select', 'while', '!', '=', 'a=',
             'a=(', '+=', '[[', ']]', '-', '>&', '<&', '&>', '2', '~', '((', '))', '# c']


def fragment_inputs(n, rnd):
    out = []
    for _ in range(n):
        k = rnd.randint(2, 14)
        out.append(''.join(rnd.choice(FRAGMENTS) for _ in range(k)))
    return out


def random_inputs(n, seed):
    rnd = random.Random(seed)
    half = n // 2
    return char_inputs(n - half, rnd) + fragment_inputs(half, rnd)


def char_inputs(n, rnd):
    letters = sorted(set(''.join(k for k in KEYWORDS if k.isalpha())))
    chars = ALPHABET + letters + ['\t', 'E', 'p', '[', ']', '2']
    out = []
    for _ in range(n):
        target = rnd.randint(6, 40)
        parts = []
        length = 0
        kwbias = rnd.choice([0.1, 0.25, 0.4])
        while length < target:
            r = rnd.random()
            if r < kwbias:
                p = rnd.choice(KEYWORDS)
                if rnd.random() < 0.5:
                    p = p + rnd.choice([' ', ';', '\n', ' '])
            elif r < kwbias + 0.45:
                p = rnd.choice(ALPHABET)
            else:
                p = rnd.choice(chars)
            parts.append(p)
            length += len(p)
        out.append(''.join(parts)[:40])
    return out


def shard_random(args):
    n, seed = args
    return compare(random_inputs(n, seed))


HANDWRITTEN = [
    'a <<E\nx\nE\n', 'a <<E\nx\nE', 'a <<E\nx\n', 'a <<E', 'a <<E\n', 'a <<-E\n\tx\n\tE\n',
    'a <<-E\n\t\tx\n\t\n\tE\nb', 'a <<E <<F\nx\nE\ny\nF\nb\n', 'a <<E <<-F\nx\nE\n\ty\n\tF\n',
    'a <<E\nx\nE \n', 'a <<"E"\nx\nE\n', "a <<'E'\nx\nE\n", 'a <<\\E\nx\nE\n', 'a <<E\nx\\\nE\nE\n',
    'a <<E\nx\\', 'a <<E\n\\\nE\n', 'a <<E;b\nx\nE\nc', 'a << E\nE\n', 'a <<E\nE', 'a <<-E\n\tE',
    'a <<-\tE\nE\n', 'a <<E # c\nx\nE\n', 'a <<E\n\nE\n', 'a <<-E\n\n\tE\n', 'a <<-E\n\t\nE\n',
    'a <<E <<E\nE\nE\n', 'cat <<EOF | b\nfoo\nEOF\nc', '<<a\na', '<<a\n', '<<-a\n\t', 'a <<"\nE\n',
    'case x in a) b;; esac', 'case x in a) b;; esac\n', 'case x in (a) b;; c|d) e;& f) g;;& esac',
    'case x in esac', 'case case in case) case;; esac', 'case in in in) in;; esac',
    'case x\nin\na) b\n;;\nesac', 'case x in a) case y in b) c;; esac;; esac',
    'for i in a; do b; done', 'for i in a b c\ndo\nb\ndone', 'for i; do b; done', 'for i do b; done',
    'for in in in; do in; done', 'for do in do; do do; done', 'select i in a; do b; done',
    'for ((i=0;i<1;i++)); do a; done', 'function f { a; }', 'function f() { a; }', 'f() { a; }',
    'f () { a; }', 'f() ( a )', 'function f ( a )', 'function { a; }', 'f() { { a; }; }',
    '$(case x in a) b;; esac)', '$(case x in (a) b;; esac)', '$(a <<E\nx\nE\n)', '$(a <<E\nx\nE)',
    '$(a <<-E\n\tx\n\tE\n)', '$(a <<-E\n\n\tE\n)', '$(a <<E\n)\nE\n)', '$(a <<<b)', '$(a <b)',
    '$(a <(b))', '$(a # c\n)', '$(a #c)', '$(a; do b)', '$(a && b || c; d & e)', '$(a | b)',
    '$(for i in a; do b; done)', '$(if a; then b; fi)', '$( (a) )', '$((1+2))', '$(( (1) ))',
    '$(a "b)" c)', "$(a 'b)' c)", '$(a `b)` c)', '$(a \\) b)', '$(a $(b) c)', '$(a ${b)} c)',
    "$(a $'b\\'c' d)", '$(a $[1)] b)', '$(esac)', '$(case)', '$(case x in a) ;; esac)',
    '$(case x in a) b;; (c) d;; esac; e)', '${a:-"b}"}', '${a:-b}', "${a:-'b}'}", '${a#"}"}',
    '"${a:-\'b\'}"', '"${a/\'b\'/c}"', '"${a%\'}\'}"', '${a:-$(b)}', '${a:-${b}}', '${a:-{b}}',
    '"${a:-{b}"', '${a:-$b{c}}', '${', '${a', '$(', '$(a', '$[', '$[1+2]', '$[1+[2]]', '$$', '$', '$a',
    "$'a\\'b'", "$'a\\\\'b", '$"a"', '$"a\\"b"', "'a\\'b'", '"a\\"b"', '"a`b`c"', '"a`b"c`d"',
    '"a$(b)c"', '"a$(b "c")d"', '"a${b}c"', '"a$[b]c"', '"$(")")"', '`a`', '`a "b` c"', '`a\\`b`',
    '`a #b`', '`a\n#b`', '`a\n #b\nc`', '"`#`"', 'a=(b c)', 'a=b c=d e', 'a+=b', 'a+b=c', '_a=1',
    '1a=b', 'a1=b', 'a=', 'a==', '=a', 'a b=c', 'a; b=c', 'a | b=c', '[[ a ]]', '[[ a == b ]]',
    '[[ a ]] ]]', 'time -p a', 'time -p -- a', 'time a', 'time', 'time -p', 'a time', '! a', '!a',
    'a ! b', '1>&2-', '1>&2', '2>&1', '>&-', '<&-', '1<&-', '>&2-', 'a 12>b', 'a 007>b', '12 >b',
    '1>b', '1 2>3', 'a1>b', '{a}>b', '{a}<b', '{a} >b', '{a}', '{a}>', '{}>b', '{>b', '}>b',
    'a\\\nb', 'a \\\n b', '\\\na', 'a\\\n', 'a\\', '\\', '\\\n', '\\\n\\\n', 'a &\\\n& b', 'a <\\\n< b',
    'a "b\\\nc"', "a 'b\\\nc'", '$(a\\\nb)', '"a\\', "'a\\", 'a\tb', '\ta', 'a\t', 'a \t b',
    'esac', 'in', 'do', 'done', 'a esac', 'a in', 'a do', '; esac', '( esac', '{ esac', 'a; in',
    'for esac in in', 'case esac in esac) esac;; esac', '{ a; }', '{ { a; }; }', '{ a; } }', '}',
    '{', '{ }', '{}', '{a', 'a}', '{ a }', '{;}', '} {', 'a { b }', 'a;;b', 'a;;&b', 'a;&b', ';;',
    ';;;', '&>>', 'a &>> b', 'a &> b', '&>', '<<<', 'a <<< b', 'a <<<b', 'a <<<', '<(a)', '>(a)',
    'a <(b)', 'a >(b)', 'a<(b)', 'a <(b', '<(', 'a < (b)', '<(a)b', '<<(a)', '<>(a)', '<> a', '>| a',
    'a |& b', 'a || b && c', 'a & b', '(a)', '((a))', '( (a) )', '(a;b)', '()', ')', '((', '))',
    '# comment', 'a # comment', 'a#b', '#', '#\n', '#a\nb', 'a #b\nc', ' #', '\n#', '# a \\\nb',
    '"', "'", '`', '"a', "'a", '`a', 'a"', "a'", 'a`', 'a"b"c', "a'b'c", 'a"b"\'c\'', '""', "''", '``',
    '- a', 'a - b', '>&-a', '-', '~', '~a', 'a~', '\n', '\n\n', ' ', '  ', ' \n ', 'a\nb', 'a\n\nb',
    'if a; then b; elif c; then d; else e; fi', 'while a; do b; done', 'until a; do b; done',
    'coproc a', 'coproc a { b; }', 'select x; do a; done', 'a && { b; }', 'a ) b', 'a ( b',
    'f() { case x in a) b;; esac; }', 'if { a; }; then b; fi', 'a <<E\n$(b)\nE\n', '$(a <<E)',
    '$(a <<E\nE)', '$(<<E\nx\nE\n)', '$(a<<E\nx\nE\n)', '$(a <<"E"\nx\nE\n)', "$(a <<'E F'\nx\nE F\n)",
    '$(a <<\\E\nx\nE\n)', '$(a <<E <<F\nx\nE\ny\nF\n)', '$(a << E\nx\nE\n)', '$(a <<-E\n\tE)',
    '$(a;case x in a) b;; esac)', '$(a\ncase x in\na) b;;\nesac\n)', '$(do)', '$(do do)', '$(a do\nb)',
    '$(a <)', '$(a <', '$(a <<', '$(a <<-', '$(<', '$(a &&)', '$(a &', '$(a ;', '$(a\n', '$(a #)',
    '"${a:-$\'{}"', '"${a:-$\'{}}"', '"${a:-\'{}}"', '"${a:-$\'"b"}"', '"${a#$\'{}}"', '"${a/$\'{}}"',
    '"${a/$\'{\'}}"', '${a:-$\'{}}', '"${#\'}"', '"${a\'b}"', '"${a:\'b}"',
    '$(do case x in a) b;; esac)', '$(do\ncase x in a) b;; esac)', '$(a;do case x in a) b;; esac)',
    '$(a; do case x in a) b;; esac; done)', '$(for i in a; do case x in a) b;; esac; done)',
    '$(done case x in a) b;; esac)', '$(do;case x in a) b;; esac)', '$(do  case x in a) b;; esac)',
    '$( (a <<E\nx\nE) )', '$( (a <<E\nx\nE\n) )', '$( (a <<E\nx\nE\n)\n)', '$( ( a <<E\n)\nE\n) )',
    '$( (a <<-E\n\tx\n\tE) )', '$(a <<E\nx\n E)', '$(a <<E\nx\nE )',
    '$(a <<E \n)\nE\n)', '$(a <<E\t\n)\nE\n)', '$(a <<E b\n)\nE\n)', '$(a <<E;b\n)\nE\n)', '$(a <<E \nx\nE\n)',
    '$(a <<in \n)\nin\n)', '$(a <<in\n)\nin\n)', '$(a <<E<<F\n)\nE\n)', '$(a <<E <<F\n)\nF\n)\nE\n)',
    '$(A <<E \n)\nE\n)', '$(<<E \n)\nE\n)', '$(<<E\t\n)\nE\n)', '$(A <<E \nx\nE\n)', '$(A << E \n)\nE\n)',
    '$(A <<E B\n)\nE\n)', '$(A <<-E \n\t)\n\tE\n)',
    'function {a}> {', 'function {a}>b', 'function {a}<b { c; }', 'function {a} {', 'function a {', 'function a\n{',
    'function a b {', 'function "a" {', 'function $a {', 'function 1>a {', 'function a=b {', 'a=b {',
    ']]', '; ]]', '[[', '[[ a ]]; ]]', '{ ]]; }', '$(a <\\\n', '$(a <<\\\n', '$(a <<-\\\n',
    '${a:-$"b"}', '${a:-$\'b\'}', '${a:-"$"b""}', '$(a <<E\\\\ \nx\nE\\\\\n)',
    '$(a <<"E\\x"\nx\nE\\x\n)', '$(a <<"E\'"\nx\nE\'\n)', "$(a <<\\'E\nx\n'\n)",
    "$(a <<\\'E\nx\n'E\n)", '$(a <<E\\x\ny\nExx\n)', '$(a <<E\\x\ny\nEx\n)',
    '$(a <<"E F"\nx\nE F\n)', '$(a <<E"F"G\nx\nEFG\n)', "$(a <<E'F\nG'\nx\nEF\nG\n)",
    '$(#)\n)', '$(a) b', 'a$(b)c', 'a$(b)$(c)', '$(a)=b', 'a=$(b)', 'a="$(b)"', "a='b' c", '1$(a)>b',
]


def corpus_inputs():
    found = []
    for path in sorted(glob.glob('/repo/tests/*.py')):
        with open(path, encoding='utf-8') as f:
            tree = pyast.parse(f.read())
        for node in pyast.walk(tree):
            if isinstance(node, pyast.Constant) and isinstance(node.value, str):
                found.append(node.value)
    inputs = list(found) + list(HANDWRITTEN)
    # every prefix of the hand-written inputs (unterminated constructs, cut here-documents)
    for s in HANDWRITTEN:
        for i in range(len(s)):
            inputs.append(s[:i])
    # only ASCII is inside the correspondence domain (isalpha/isdigit/islower)
    seen = set()
    out = []
    for s in inputs:
        if s in seen or any(ord(c) >= 128 or c == '\r' for c in s):
            continue
        seen.add(s)
        out.append(s)
    return out


def shard_list(inputs):
    return compare(inputs)


# ---------------------------------------------------------------- main

def main():
    ap = argparse.ArgumentParser()
    ap.add_argument('--corpus', action='store_true')
    ap.add_argument('--maxlen', type=int, default=None)
    ap.add_argument('--random', type=int, default=0)
    ap.add_argument('--seed', type=int, default=0)
    ap.add_argument('--procs', type=int, default=16)
    ap.add_argument('--show', type=int, default=20)
    ap.add_argument('--configs', type=str, default='',
                    help="'all' or a comma-separated list of initial configurations "
                         "('+'-joined parser flags and/or nonstrict); default: only the empty one")
    ap.add_argument('--one', type=str, default=None, help='python-literal string: print both lines')
    args = ap.parse_args()

    configs = ['']
    if args.configs == 'all':
        configs = CONFIGS
    elif args.configs:
        configs = args.configs.split(',')

    if args.one is not None:
        s = pyast.literal_eval(args.one) if args.one[:1] in '\'"' else args.one
        signal.signal(signal.SIGALRM, _alarm)
        for cfg in configs:
            print('input :', repr(s), 'config:', repr(cfg))
            print('python:', run_python(s, cfg))
            print('lean  :', run_lean([(cfg, s)])[0])
        return 0

    jobs = []
    if args.corpus:
        c = corpus_inputs()
        for i in range(0, len(c), 500):
            jobs.append((shard_list, c[i:i + 500]))
    if args.maxlen is not None:
        for t in exhaustive_tasks(args.maxlen):
            jobs.append((shard_exhaustive, t))
    if args.random:
        chunk = 5000
        k = 0
        left = args.random
        while left > 0:
            n = min(chunk, left)
            jobs.append((shard_random, (n, args.seed * 1000003 + k)))
            left -= n
            k += 1
    if not jobs:
        ap.print_help()
        return 2

    total = 0
    mism, touts = [], []
    hist = {}
    with multiprocessing.Pool(args.procs, init_worker, (configs,)) as pool:
        results = [pool.apply_async(f, (a,)) for f, a in jobs]
        for r in results:
            n, m, t, h = r.get()
            total += n
            mism.extend(m)
            touts.extend(t)
            for k, v in h.items():
                hist[k] = hist.get(k, 0) + v
    for s, a, b in mism[:args.show]:
        print('MISMATCH (config, input)=%r\n  python: %s\n  lean  : %s' % (s, a, b))
    for s, a, b in touts[:args.show]:
        print('TIMEOUT (config, input)=%r\n  lean  : %s' % (s, b))
    print('outcomes (python side):')
    for k in sorted(hist, key=lambda k: -hist[k]):
        print('  %-60s %d' % (k, hist[k]))
    print('compared %d inputs: %d mismatches, %d python timeouts' % (total, len(mism), len(touts)))
    return 1 if mism else 0


if __name__ == '__main__':
    sys.exit(main())
