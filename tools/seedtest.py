#!/usr/bin/env python3
"""Confirm a seeded change (scratch worktree with .seed/{patch.diff,demo.py,meta.json}) and run the
checks against it:  seedtest.py <worktree> [--all] [--props C01,C12]
Writes /verif/seeded/<name>/ (patch.diff, demo.py, meta.json incl. which checks caught it)."""
import sys, os, subprocess, json, shutil, argparse, re, time
VERIF = os.path.abspath(os.path.join(os.path.dirname(os.path.abspath(__file__)), '..'))

def sh(cmd, cwd=None, env=None, timeout=3600):
    p = subprocess.run(cmd, cwd=cwd, env=env, shell=True, stdout=subprocess.PIPE, stderr=subprocess.STDOUT, timeout=timeout)
    return p.returncode, p.stdout.decode(errors='replace')

def main():
    ap = argparse.ArgumentParser()
    ap.add_argument('worktree'); ap.add_argument('--all', action='store_true'); ap.add_argument('--props', default='')
    ap.add_argument('--name', default=None); ap.add_argument('--tier', default='quick'); ap.add_argument('--seed', default='0')
    a = ap.parse_args()
    wt = os.path.abspath(a.worktree)
    seed = os.path.join(wt, '.seed')
    meta = json.load(open(os.path.join(seed, 'meta.json')))
    target = meta.get('property', os.path.basename(wt))
    name = a.name or os.path.basename(wt)
    res = dict(confirm={})
    # 1. tests pass with the change
    rc, out = sh('/venv/bin/python -m pytest -q -p no:cacheprovider 2>&1 | tail -1', cwd=wt)
    res['confirm']['tests_with_change'] = out.strip()
    # 2. demo fails with change
    rc1, out1 = sh('/venv/bin/python .seed/demo.py 2>&1 | tail -3', cwd=wt)
    rc1, _ = sh('/venv/bin/python .seed/demo.py >/dev/null 2>&1', cwd=wt)
    res['confirm']['demo_with_change'] = dict(rc=rc1, tail=out1.strip()[-300:])
    # 3. demo passes without
    # (not `git stash`: the stash is shared by all worktrees of a repository and collided with agents working next door)
    sh('git diff > .seed/_cur.diff && git apply -R .seed/_cur.diff', cwd=wt)
    try:
        rc2, _ = sh('/venv/bin/python .seed/demo.py >/dev/null 2>&1', cwd=wt)
        _, out2 = sh('/venv/bin/python .seed/demo.py 2>&1 | tail -2', cwd=wt)
    finally:
        sh('git apply .seed/_cur.diff && rm -f .seed/_cur.diff', cwd=wt)
    res['confirm']['demo_without_change'] = dict(rc=rc2, tail=out2.strip()[-200:])
    ok = ('63 passed' in res['confirm']['tests_with_change']) and rc1 != 0 and rc2 == 0
    res['confirmed'] = ok
    print('confirmed' if ok else 'NOT CONFIRMED', json.dumps(res['confirm'])[:600])
    props = [p for p in a.props.split(',') if p] or [target]
    if a.all: props = ['C%02d' % i for i in range(1, 21)]
    env = dict(os.environ, VERIF_REPO=wt, VERIF_SEED=a.seed)
    caught = {}
    for p in props:
        t0 = time.time()
        rc, out = sh('./check %s --tier %s 2>&1 | grep -v "^KNOWN" | tail -6' % (p, a.tier), cwd=VERIF, env=env)
        viol = [l for l in out.splitlines() if l.startswith('VIOLATION')]
        kind = 'missed'
        if viol:
            kind = 'no-failing-input-found' if all('no-failing-input-found' in v for v in viol) else 'failing-input'
        sigs = []
        for v in viol[:4]:
            m = re.search(r'replay=(\S+)', v)
            if m and os.path.exists(os.path.join(VERIF, m.group(1))):
                d = json.load(open(os.path.join(VERIF, m.group(1))))
                sigs.append(d.get('signature') or d.get('kind'))
        caught[p] = dict(result=kind, violations=len(viol), signatures=sigs, wall_s=round(time.time() - t0, 1))
        print(p, caught[p])
    res['checks'] = caught
    # restore generated data and evidence for the real repo
    sh('/venv/bin/python tools/extract.py >/dev/null', cwd=VERIF)
    sh('rm -rf replays; git checkout -q evidence 2>/dev/null', cwd=VERIF)
    dst = os.path.join(VERIF, 'seeded', name)
    os.makedirs(dst, exist_ok=True)
    shutil.copy(os.path.join(seed, 'patch.diff'), dst); shutil.copy(os.path.join(seed, 'demo.py'), dst)
    old = {}
    if os.path.exists(os.path.join(dst, 'meta.json')):
        try: old = json.load(open(os.path.join(dst, 'meta.json')))
        except Exception: old = {}
    hist = old.get('runs', [])
    hist.append(dict(at=time.strftime('%Y-%m-%d %H:%M'), tier=a.tier, seed=a.seed, checks=caught))
    meta.update(dict(breaks=target, confirmed=ok, confirmation=res['confirm'], runs=hist,
                     what_was_run='tools/seedtest.py: 63 tests with the change, demo with and without it (git stash), then ./check with VERIF_REPO pointing at the scratch worktree'))
    json.dump(meta, open(os.path.join(dst, 'meta.json'), 'w'), indent=1)

if __name__ == '__main__':
    main()
