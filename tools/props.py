"""Registry: per property, the deciding module, the theorems it rests on, and the level claimed."""

REGISTRY = {}
THEOREM_MODULE = {}

def reg(pid, module, level, theorems, assumptions=()):
    REGISTRY[pid] = dict(module=module, level=level, theorems=[t for t, _ in theorems], assumptions=list(assumptions))
    for t, m in theorems:
        THEOREM_MODULE[t] = m

ASCII = 'inputs are ASCII (character classification of the model is exact on ASCII only)'
DEPTH = 'substitutions nested deeper than 64 levels are outside the modelled domain'
CORR = 'theorems are about the Lean model; they transfer to the implementation through the correspondence observed on the generated inputs'

T1 = [('Bashlex.Props.C09_sound', 'Bashlex.Props.C09'), ('Bashlex.Props.C09_exact', 'Bashlex.Props.C09'), ('Bashlex.LR.real_AccOK', 'Bashlex.LR.Real'), ('Bashlex.LR.run_sound_exact', 'Bashlex.LR.Exact'), ('Bashlex.LR.real_check', 'Bashlex.LR.Real'),
      ('Bashlex.LR.real_WF', 'Bashlex.LR.Real'), ('Bashlex.LR.run_sound', 'Bashlex.LR.Sound'),
      ('Bashlex.LR.Raw.check_sound', 'Bashlex.LR.Check'),
      ('Bashlex.Props.termNames_agree', 'Bashlex.Props.C09'), ('Bashlex.Props.actions_covered', 'Bashlex.Props.C09')]

LEXM = 'Bashlex.Props.Lex'
# tie of the hand-written lexical constants (token types, reserved words, syntax table, flags, option defaults) to the
# imported package: decided by the kernel against Gen/Lex.lean, which the translator regenerates on every run
TLEX = [('Bashlex.Props.Lex.' + t, LEXM) for t in ['lex_tables_agree', 'signatures_agree', 'wordFlags_known', 'parserFlags_known', 'tokType_all_complete']]
T1 = T1 + TLEX

C01M = 'Bashlex.Props.C01'
T_C01 = [('Bashlex.C01.' + t, C01M) for t in ['C01_partial', 'C01_partial_single', 'C01_partial_split', 'C01_parserRun', 'C01_conditional',
         'expand_progress', 'sat_expandwordinternal', 'parseLoop_exn', 'shAction_sound', 'C01_expand_terminates', 'C01_parse_terminates',
         'C01_no_marker', 'C01_foreign', 'disciplined_iff']]
T_C01E = [('Bashlex.Final.' + t, 'Bashlex.Props.Final') for t in ['C01_engine_terminates', 'C01_engine_terminates_run', 'C01_partial_noLRFuel']] + \
         [('Bashlex.LR.' + t, 'Bashlex.Props.C01Engine') for t in ['real_rankCheck', 'pot_reduce', 'engine_terminates', 'engine_terminates_ord']] + \
         [('Bashlex.C01E.' + t, 'Bashlex.Props.C01Engine') for t in ['seq_terminates_list', 'act_exn', 'next_budget', 'C01_engine_terminates_conditional', 'C01_engine_terminates_budget_conditional']]
T_C01E += [('Bashlex.C01.' + t, 'Bashlex.Props.C01Tight') for t in ['C01_partial_tight', 'C01_partial_single_tight', 'C01_partial_split_tight', 'C01_parserRun_tight', 'k_parserRun', 'next8_good', 'parserRun8',
           'f_gatherheredocuments', 'sat_tokeninit_false', 'sat_isassignment_false']] + [('Bashlex.C11.C11_split', 'Bashlex.Props.C01Tight')] + \
          [('Bashlex.C01E.' + t, 'Bashlex.Props.C01Loops') for t in ['split_terminates', 'C01_partial_split_tight', 'C01_nesting_bound', 'C01_partial_split_nofuel']]
T_ACT = [('Bashlex.ActGen.' + t, 'Bashlex.Props.ActGen') for t in ['actgen_agree', 'actgen_covered', 'makeparts_gen', 'parseD_gen', 'driver_pieces', 'partsspan_dup', 'partsspan_discard']]
reg('C01', 'propchecks.c01', 'proof', [("Bashlex.C11.C01_partial'", 'Bashlex.Props.C11Total'), ('Bashlex.C11.no_init_assert', 'Bashlex.Props.C11Total')] + T_C01E + T_C01 + T1, [ASCII, DEPTH, CORR,
    'Props/C01Tight.lean, Props/C01/Tight*.lean (5100 lines): ALL 14 raise sites of the tokenizer for exceptions outside the contract are proved UNREACHABLE (tokForeignTight = []), for parse, parsesingle and split - C01_partial_tight: 7 from parameters and loop states, 2 local to token(), 2 with a parser-object invariant (the line never ends in a backslash; ids on redirstack are in the store) carried through tokenizer, word expansion, all actions, engine, nested parsers, 2 with the cursor-level facts of C03/C11 (REGEXP/DBLPAREN are never set); kernel-checked STATE witnesses show the state-free formulation false for four of them; what is left in the list: the 3 recorded defects D24/D18/D35 (witnesses) and 3 sites above the tokenizer not excluded (visitnode, _extractcommandsubst, _expandwordinternal). '
    'Props/C01Loops.lean: split_terminates / C01_partial_split_nofuel (the loop of split makes at most |line|+1 iterations: every token pays a unit of the tape; none of the three fuel markers for split), C01_nesting_bound (the nesting marker needs at least 64 opener characters in the input - the property\'s clause about recursion limits); f_gatherheredocuments (that loop never runs out of fuel). Still covered by fuel only: 7 character loops of the tokenizer. '
    'Props/C01Engine*.lean + Props/Final.lean: TERMINATION OF THE LR ENGINE LOOP is proved (C01_engine_terminates, no hypothesis since RootEnds is a theorem): a ranking certificate (weight 8 per state accessed by a non-nullable symbol, rank <= 7) is regenerated with the tables by the translator (tools/lrrank.py -> Gen/Rank.lean) and CHECKED by the kernel (real_rankCheck: every reduction strictly decreases the potential, no reduction cycle); engine_terminates: at most 16*m+1 iterations for a token budget m, for every token source; '
    'next_budget: the real tokenizer pays one unit of |line| - cursor per token; hence on inputs with 16*(|s|+1) < 2^30 neither parse nor parsesingle can raise outOfFuel "LRParser.parse" (C01_partial_noLRFuel) - the fuel marker of the engine is no longer in the allowed list. ',
    "C01_partial' (Props/C11Total.lean) removes AssertionError|ParsingError.__init__ from the list: error positions are proved in range. " +
    'C01_partial bounds what can escape the model: ParsingError, NotImplementedError, 7 listed (type, site) pairs above the tokenizer (3 are recorded defects '
    'with kernel-checked witnesses, 4 could not be excluded), 14 raise sites of the tokenizer (not analysed for reachability) and the out-of-fuel markers of the '
    'loops covered by fuel only (LR engine, nesting depth 64, tokenizer loops); termination is proved for the loops of _expandwordinternal and parse()'])
C03M = 'Bashlex.Props.C03'
T_C03 = [('Bashlex.C03.' + t, C03M) for t in ['C03_partial', 'C03_partial_single', 'strict_known', 'strict_resolve', 'spans_hooks', 'parserRun_spans', 'wordContract']] + [('Bashlex.LR.run_sound_ord', C03M)]
C03T = 'Bashlex.Props.C03Total'
T_C03 += [('Bashlex.C03.' + t, C03T) for t in ['tokSpans', 'sat_nextToken_w', 'C03_total_conditional', 'C03_total_single_conditional']]
T_C03 += [('Bashlex.C03.' + t, 'Bashlex.Props.C03.RootEnds') for t in ['C03_total_checked', 'C03_total_single_checked', 'parserRunK_plain', 'parserRunK_spans', 'parseK_sound', 'rootEndOK_noNLNL', 'rootEndsChecked_of_rootEnds']]
T_ROOT = [('Bashlex.C03.rootEnds', 'Bashlex.Props.C03.RootEndsProof'), ('Bashlex.C03.RE.tokValW', 'Bashlex.Props.C03.RootEndsProof'), ('Bashlex.Totals.rootEndsChecked_all', 'Bashlex.Props.Totals')]
T_C03 += T_ROOT + [('Bashlex.Totals.C03_total', 'Bashlex.Props.Totals'), ('Bashlex.Totals.C03_total_single', 'Bashlex.Props.Totals')]
reg('C03', 'propchecks.treespec', 'proof', T_C03 + T1, [ASCII, DEPTH, CORR,
    'Props/C03/RootEndsProof.lean, Props/C03/RE/*.lean (3800 lines), Props/Totals.lean: **RootEnds is PROVED** (rootEnds, no hypotheses: (S) a new pass over the actions - the end of the root is the end of a delivered non-NEWLINE token, with a kernel-decided grammar fact; (T) from tokText; (W) tokValW - the value of a word token does not end in a raw newline; (H) an exact-cursor walk of the here-document reader), so C03_total / C03_total_single are UNCONDITIONAL: for every input and all options every violated clause of Spec.spansWF on every node of every returned tree is a recorded defect; rootEndsChecked_all: the per-input condition of the checked theorems always holds. ',
    'C03_total_checked (NO hypothesis): the same conclusion under the decidable per-input condition rootEndsChecked s o (an instrumented parse, proved equal to parse, that checks the root of every nested run; it cannot fire when the text has no two adjacent newlines - rootEndOK_noNLNL - and held on all 8.3 million generated parser runs of the sub-task; RootEnds implies it). ' +
    'C03_total_conditional: for every input and all options every violated clause of Spec.spansWF on every node of every returned tree is one of the recorded defects (C03_known: +heredoc, +emptydesc, empty-span:reservedword), '
    'with ONE hypothesis left: RootEnds (the root of a nested parser run does not end in two newlines unless ")" follows - a text-level fact needed for the trailing-newline trim of _parsedolparen). The token-source hypothesis is '
    'DISCHARGED for the real tokenizer (tokSpans: positioned, non-empty, ordered tokens starting inside the input; redirect cells extended over a here-document only at the frontier; closure under the parser and nested parsers)'])
C04M = 'Bashlex.Props.C04'
T_C04T = [('Bashlex.C04.' + t, 'Bashlex.Props.C04Total') for t in ['tokText', 'C04_prov_total', 'C04_leaf_text_total', 'C04_spine_operator_total', 'C04_spine_pipe_total', 'C04_partial_total', 'C04_total_conditional', 'C04_total_spine_conditional']] + [('Bashlex.C04.TTP.scanHyp', 'Bashlex.Props.C04.TokTextProof'), ('Bashlex.C04.tokText_of', 'Bashlex.Props.C04.TokTextProof')]
T_C04 = [('Bashlex.C04.' + t, C04M) for t in ['C04_partial', 'C04_partial_conditional', 'C04_partial_spine', 'C04_prov', 'C04_prov_single', 'C04_leaf_text', 'C04_operator', 'C04_pipe', 'C04_redirect', 'C04_word_span',
         'C04_spine_leaf_text', 'C04_spine_operator', 'C04_spine_pipe', 'value_slice', 'dollar_text', 'Src.slice_eq', 'textOK_origin', 'keepsEol_action', 'parserRun_C04', 'sat_action']]
T_C04W = [('Bashlex.C04.' + t, 'Bashlex.Props.C04Words') for t in ['parse_W', 'C04_word_starts', 'C04_word_ends', 'C04_word_whole_plain', 'C04_words_single', "C04_total_conditional'", "unlinked_of_unlinked'"]] + [('Bashlex.C04.' + t, 'Bashlex.Props.C04.WordBounds') for t in ['tokWB', 'tokStartsOK', 'tokEndsOK', 'tokWhole_plain']]
reg('C04', 'propchecks.treespec', 'proof', [('Bashlex.Totals.C04_total', 'Bashlex.Props.Totals')] + T_ROOT + T_C04W + T_C04T + T_C04 + T1, [ASCII, DEPTH, CORR,
    'C04_total (Props/Totals.lean): with RootEnds proved, the conditional theorem is unconditional. ',
    'tokText (Props/C04/TokTextProof.lean): the token-text hypothesis is PROVED for the real tokenizer (all of _readtoken, _readtokenword, _parse_matched_pair, _parse_comsub; ghost-text invariant through every buffer append), for the corrected relation '
    'textRel sl v r = "the value followed by the residue is the text under the span with some backslash-newline pairs deleted" (the first formulation, validated by #eval only, was found false on rare inputs by the proof attempt: an escaped backslash directly before a real '
    'continuation); residues = the recorded defects D31, D32, D31+D32 and NEWLINE over here-document bodies. C04_prov_total, C04_leaf_text_total, C04_spine_operator_total, C04_spine_pipe_total, C04_partial_total are unconditional; C04_total_conditional has RootEnds as its only hypothesis. '
    'Word clauses (Props/C04Words.lean, Props/C04/WB*.lean): tokWB - the cursor-at-token-boundary invariant through nextToken, gatherheredocuments and every action - is proved for the real tokenizer; on the spine (nodes outside words), unconditionally: C04_word_starts (the character before a word is a break character, or the dash of <<- / <&- / >&-, or the word starts a later part), C04_word_ends (the character after it is a break character or the end; exclusion D31+D32), C04_word_whole_plain (a word without quoting characters is one whole shell word). Still outside (Unlinked-prime) and decided per input: word-not-whole for words with quoting characters, the word clauses below words, adjacency of fd and operator, the span of a here-document redirect'])
C05M = 'Bashlex.Props.C05'
C05G = 'Bashlex.Props.C05.Gaps'
T_C05 = [('Bashlex.C05.' + t, C05M) for t in ['C05_partial', 'C05_partial_parts', 'C05_partial_single', 'fcovers_strict', 'leaves_resolve', 'act_leaves', 'leaves_hooks', 'parserRun_leaves']] + \
        [('Bashlex.LR.run_sound_ordH', C05M)] + [('Bashlex.C05.' + t, C05G) for t in ['token_in_leaf', 'leaf_starts_at_token', 'TokLog.sorted', 'C05_tokens_in_leaves']]
C05T = 'Bashlex.Props.C05Total'
T_C05 += [('Bashlex.C05.' + t, C05T) for t in ['tokLog', 'C05_total_conditional', 'C05_total_single_conditional', 'C05_total_tokens_in_leaves']]
T_C05 += [('Bashlex.C05.' + t, 'Bashlex.Props.C05Checked') for t in ['C05_total_checked', 'C05_total_tokens_in_leaves_checked', 'parserRunK_leaves']]
T_C05 += [('Bashlex.C05.' + t, 'Bashlex.Props.C05Chars') for t in ['C05_chars_checked', 'posLay_charLay', 'skip_isLayout']] + [('Bashlex.C05.TG.' + t, 'Bashlex.Props.C05.TokGapsProof') for t in ['tokGaps_next', 'tokGaps_gather', 'tokLogG', 'tokLogGL', 'tokGapsC']]
T_C05 += [('Bashlex.C05.' + t, 'Bashlex.Props.C05Final') for t in ['C05_chars_total', 'C05_final', 'C05_chain_checked', 'TGT.posLay_overapprox', 'run_gapsOK', 'coverOK_sound', 'act_ids', 'TGT.tokLogX', 'TGT.gap_layout', 'TGT.none_layout', 'TGT.tiled_of_covers']] + \
         [('Bashlex.C03.act_store', 'Bashlex.Props.C05Final'), ('Bashlex.LR.run_sound_ordB', 'Bashlex.Props.C05Final')]
T_C05 += [('Bashlex.C05.' + t, 'Bashlex.Props.C05Cover') for t in ['C05_coverOK_plain', 'C05_coverOK_plain_nil', 'C05_run_gapsOK']]
T_C05 += [('Bashlex.C05.' + t, 'Bashlex.Props.C05Cover2') for t in ['rootsAtLeaves_of_spine', 'C05_coverOK_spine_nil']]
T_C05 += T_ROOT + [('Bashlex.Totals.C05_total', 'Bashlex.Props.Totals'), ('Bashlex.Totals.C05_total_single', 'Bashlex.Props.Totals'), ('Bashlex.Final.C05_final', 'Bashlex.Props.Final'), ('Bashlex.Final.C05_chars_total', 'Bashlex.Props.Final')]
reg('C05', 'propchecks.treespec', 'proof', T_C05 + T1, [ASCII, DEPTH, CORR,
    'Props/C05Cover.lean: the link to the EXECUTABLE spec - C05_coverOK_plain_nil: for results without here-document body leaves and without D19 (plainLeaves), under rootsAtLeaves (nextIndex = end of the last leaf) and SortOK (Array.qsort returned a sorted permutation), all three decidable on (s, parts), Spec.coverOK reports NOTHING (no overlap, no gap, no trailing text, across runs); evaluated: the conditions hold on all 779 + 1424 + 791 plain accepted inputs of the validation corpora; C05_coverOK_spine_nil (Props/C05Cover2.lean): rootsAtLeaves is a THEOREM for parts whose last spine runs through list / pipeline / command nodes (spineOK, decidable; 577 of 779 corpus results - the others end in a compound command, for which no development says where the node ends). ' +
    'Final.C05_final / Final.C05_chars_total / Totals.C05_total: with RootEnds proved no per-input condition is left (only the fuel bound of the model, |s|+1 < 2^30). ',
    'Props/C05Final.lean, Props/C05/F*.lean (4950 lines): the sub-task found C05_chars_checked WEAKER than it reads (posLay_overapprox, kernel-checked: PosLay is a property of the text alone, every character after any # on a line counts as layout - a token dropped behind a # inside a word would not be noticed) and repaired it: Skips are anchored at the end of the previous token (Chain), regions consumed by gatherheredocuments are newline / continuation / recorded body (GRegT, a re-walk of the tokenizer). '
    'C05_chars_total: the gathered-body disjunct is GONE - every gathered body is a leaf of the tree flagged as a body (act_ids: all 39 actions conserve the pending redirects of their arguments; act_store: only p_redirection_heredoc appends a store cell); D11 needs no exclusion (it is about which text is the body). '
    'C05_final: token level + character level + parts in one statement (PartsFinal: every run from the restart index satisfies TopOK and CharsTotal, the next index is max(nextIndex part, k+1); a final run that returns no node was delivered only dropped NEWLINEs and EOF and every position of it is layout - run_sound_ordB, accept entries only on $end - so no command is lost behind the last part). '
    'Link to the executable spec, partial: coverOK_sound (under SortOK, a decidable per-input condition on Array.qsort: sorted permutation) gives an order-free geometric reason for each signature; run_gapsOK: for one run without here-documents every gapsOK signature is trailing-text-not-layout. NOT proved: coverOK for the whole parse result (where a top-level root ends, extended redirects, qsort itself)',
    'C05_chars_checked (the CHARACTER level, no hypothesis, same decidable condition): tokGaps_next - between the end of one delivered token and the start of the next the tokenizer skips only blanks, tabs, backslash-newline pairs and one comment up to its newline (which is the NEWLINE token); gathered here-document bodies lie inside the NEWLINE token span or between tokens - is PROVED for the real tokenizer (D31/D32 need no exclusion: the lost characters lie inside the previous token); lifted to the log (tokGapsC) and to the tree: every character of a part below the run frontier is inside a leaf, is layout (posLay_charLay: blank, tab, newline, the backslash of a continuation, inside a comment), belongs to the look-ahead token, to a time token (D19) or to a gathered here-document body. Residual, stated: that every gathered body is a leaf of the tree (a conservation fact of the actions; true on all inputs evaluated) and the link to the executable coverOK (qsort). ' +
    'C05_total_checked (NO hypothesis, decidable per-input condition rootEndsChecked as in C03). C05_total_conditional (token level), with RootEnds as the only hypothesis left (the token-source hypothesis is discharged: tokLog): one part per parser run, in order; the leaves of each part are exactly the delivered tokens, grouped '
    '([fd] op target = one redirect leaf, here-document bodies attached), no token duplicated, and the only tokens without a leaf are NEWLINEs in five listed grammar positions (kernel-checked witnesses); D19 is characterised exactly and '
    'excluded by a decidable predicate. NOT proved: the character-level half (text outside leaf spans is layout: TokGaps) and the link to the executable Spec.coverOK (its qsort cannot be evaluated in the kernel); both are decided per input'])
C12M = 'Bashlex.Props.C12'
reg('C12', 'propchecks.treespec', 'proof', T_ACT + [('Bashlex.C12.C12_partial', C12M), ('Bashlex.C12.C12_partial_single', C12M), ('Bashlex.C12.C12_only_pipelines', C12M), ('Bashlex.C12.parserRun_ok', C12M), ('Bashlex.C12.hooks_ok', C12M), ('Bashlex.C12.sat_nextToken', 'Bashlex.Props.C12.Tokens'), ('Bashlex.C12.grammar_ok', 'Bashlex.Props.C12.Grammar')] + T1, [ASCII, DEPTH, CORR])

QC = 'Bashlex.Proofs.QCongr'
T6 = [('Bashlex.Q.run_congr', QC), ('Bashlex.Q.run_strict_irrelevant', QC), ('Bashlex.Q.run_proceed_irrelevant', QC),
      ('Bashlex.Q.optStrict_asked_of_ne', QC), ('Bashlex.Q.optProceed_asked_of_ne', QC)]
C13M = 'Bashlex.Props.C13'
T_C13 = [('Bashlex.C13.' + t, C13M) for t in ['C13_independence', 'C13_first_part', 'C13_first_part_noEOF', 'C13_partial', 'C13_partial_exn', 'C13_partial_conditional',
         'parse_unfold', 'parseLoop_eq', 'Loop.det', 'Loop.total', 'ofInput_prefix']] + [('Bashlex.nextIndex_shift', C13M), ('Bashlex.Node.shift_shift', C13M), ('Bashlex.Node.lastHeredocEnd_shift', C13M)]
reg('C13', 'propchecks.relprops', 'proof', T_C13 + [('Bashlex.C14.C13_partial_blank', 'Bashlex.Props.C14'), ('Bashlex.C14.blankSkip_run', 'Bashlex.Props.C14')] + [('Bashlex.Q.run_prefix', QC), ('Bashlex.runParser_prefix', QC), ('Bashlex.Q.run_prefix_idx', QC)] + (T1[:1] + TLEX), [ASCII, DEPTH, CORR,
    'C13_independence: for A whose runs are local (no read beyond its own text: parseLocal, decidable; implied by "no _getc returned None") parse(A ++ R) = parse(A) followed by the shifted parts of a '
    'fresh parse of the rest from the restart index; only that index flows between top-level commands. Replacing the rest by B itself when blank lines precede it (BlankSkip: one parser run commutes '
    'with translation past a blank prefix) is an explicit hypothesis of C13_partial_conditional and is decided per input'])
C14M = 'Bashlex.Props.C14'
T_C14 = [('Bashlex.C14.' + t, C14M) for t in ['runParser_shift', 'runParser_shift_ok', 'blankSkip_run', 'BlankSkip_conditional', 'C13_partial_blank', 'sim_nextToken', 'sim_parserRun', 'actionsHyp', 'expRel_of_npRel',
         'shiftSafe_ok', 'consume', 'D19_witness', 'example_shift']]
T_C14 += [('Bashlex.C14.' + t, 'Bashlex.Props.C14More') for t in ['runParser_layout_all', 'parse_layout_prefix', 'parse_layout_prefix_parts', 'parse_layout_prefix_exn', 'parsesingle_layout_prefix',
          'runParser_layout_only', 'parse_layout_only', 'parse_layout_suffix', 'C13_partial_layout', 'C14_insert_between', 'consumeX', 'D19_comment_witness', 'D19_comment_parsed', 'joinable_witness', 'local_witness']]
T_C14 += [('Bashlex.C14I.' + t, 'Bashlex.Props.C14Interior') for t in ['engine_from', 'actNat_all', 'actions_covered', 'cfgR_self', 'C14_interior_phase2_conditional', 'C14_interior_SI_conditional',
          'C14_interior_runParser_conditional', 'widen_validated', 'eol_validated', 'D31_widen_witness', 'heredoc_adjacent_witness', 'heredoc_delim_witness', 'D19_no_exclusion', 'tok_double', 'tok_double_map', 'gather_double', 'sim_double', 'C14_interior_parsesingle_conditional', 'C14_interior_parse_first_conditional']]
T_C14 += [('Bashlex.C14.' + t, 'Bashlex.Props.C14Total') for t in ['run_root', 'parseStop_le', 'parse_layout_prefix_total', 'parse_layout_suffix_total', 'C14_insert_between_total']]
reg('C14', 'propchecks.relprops', 'proof', T_C14 + (T1[:1] + TLEX), [ASCII, DEPTH, CORR,
    'Props/C14Total.lean: the span hypotheses hpos and hstop of the parse-level layout theorems are discharged (run_root, parseStop_le) down to ONE universal hypothesis NoD19 (no constant-span time node when proceedonerror is off: true - p_timespec raises - but proved only inside the relational engine; 0 failures on 8640 evaluated inputs); hrest is kept: it is FALSE for an input ending in a comment without newline (witness a, newline, #c), where the conclusion still holds - the suffix theorem does not cover such inputs. ',
    'Props/C14Interior.lean (layout INSIDE a command, partial): the LR engine, resolve and all 39 action functions are natural in an ARBITRARY span map f with f(0,0)=(0,0) that commutes with first-start/last-end and keeps start<end (engine_from, actNat_all - the actions never do arithmetic on positions), so from any pair of related configurations the run on X++ins++Y returns the tree of the run on X++Y with Node.mapPos (spanMap |X| |ins|); '
    'what is LEFT are three tokenizer-side hypotheses of C14_interior_runParser_conditional (nextToken, word expansion and gatherheredocuments relate the two tapes from the gap on); the target statement is validated by decide +kernel on a corpus (widen_validated, eol_validated) with witnesses for its exclusions (D31 behind an escaped blank, the opening and delimiter lines of here-documents); D19 is no exclusion here. ',
    'Props/C14More.lean: the prefix may be any LAYOUT = ([ \\t\\n] | #...newline | backslash-newline)* (comment lines and continuations included; a backslash at the end of a comment continues nothing): runParser_layout_all (one run, all B), '
    'parse_layout_prefix / parsesingle_layout_prefix (the whole parse: every part shifted, a ParsingError of the first run moved, later errors unchanged); parse_layout_suffix (layout appended after a local, joinable input changes nothing), parse_layout_only; '
    'C13_partial_layout and C14_insert_between (layout inserted at a boundary between top-level commands leaves earlier parts unchanged and moves later parts by its length). Hypotheses left, all decidable per input: proceed = false (D19, witnesses), '
    'Joinable / parseLocal (witnesses), and three span facts (the first part does not end at index 0; parts end inside the input; a run that returns no node ran on layout). Layout edits INSIDE a command are not proved (the engine stack would mix moved and unmoved values: all action lemmas would need a piecewise shift)',
    'runParser_shift (unconditional relational walk of the whole tokenizer, word expansion, all 39 actions, the LR engine and nested parsers): one parser run on pre ++ B, pre made of blanks, tabs and newlines, is the run on B with every '
    'span moved by |pre| (a top-level ParsingError carries pre ++ src and p + |pre|; nested errors are identical), for proceedonerror = false (D19: the constant (0,0) span of time, kernel-checked witness). This is layout invariance for a '
    'blank prefix and the core of C14; layout edits BETWEEN tokens (the general statement), comments in the prefix and proceedonerror = true are decided per input by the relation'])
C16M = 'Bashlex.Props.C16'
T_C16 = [('Bashlex.C16.' + t, C16M) for t in ['C16_partial', 'C16_partial_conditional', 'frameHyp', 'parseI_sound', 'parseI_limit', 'parserRunI_rel', 'rel_action', 'rel_run', 'rel_expandwordWith']]
T_C16 += [('Bashlex.C16.' + t, 'Bashlex.Props.C16.Stable') for t in ['C16_total_checked', 'heredocStable_checked', 'heredocStable_of_spans', "C16_partial'", 'nextIndex_prune', 'parse_wend']]
T_C16 += T_ROOT + [('Bashlex.Totals.C16_total', 'Bashlex.Props.Totals')]
reg('C16', 'propchecks.relprops', 'proof', T_C16 + (T1[:1] + TLEX), [ASCII, DEPTH, CORR,
    'Totals.C16_total: with RootEnds proved the conditions left are flagsNeutral and noD19 (both decidable per input). ',
    'C16_total_checked: heredocStable is now DERIVED from the span theorem (every node below a word ends inside the word - parse_wend, unconditional - and the outermost word ends before the part or before a surviving here-document body); the remaining conditions are decidable and per input: flagsNeutral, noD19 (no constant-span time node: a limit of the span proof, not a defect) and rootEndsChecked. ' +
    'C16_partial holds under two decidable per-input conditions: flagsNeutral k s o (no nested parse that the limited run skips changes the parser-state flags it shares with its caller - copy.copy(parserstate) is '
    'shallow; when it fails the known divergences go the allowed way: the limited parse accepts what the unlimited one rejects) and heredocStable k parts (pruning does not move the restart index of parse())'])
reg('C17', 'propchecks.relprops', 'proof', [('Bashlex.C13.' + t, C13M) for t in ['parsesingle_eq_head', 'parsesingle_exn_iff', 'parse_exn_of_parsesingle_exn', 'parsesingle_of_parse_exn']] + T6 + [('Bashlex.parse_strict_irrelevant', QC), ('Bashlex.parse_proceed_irrelevant', QC),
      ('Bashlex.parsesingle_strict_irrelevant', QC), ('Bashlex.parsesingle_proceed_irrelevant', QC)] + TLEX, [ASCII, DEPTH, CORR])

C11M = 'Bashlex.Props.C11'
T_C11 = [('Bashlex.C11.' + t, C11M) for t in ['nextToken_good', 'gather_good', 'pError_ht', 'tok_no_init_assert', 'C11_later', 'topParsing_source', 'topParsing_eof', 'topParsing_token',
         'C11_parserRun_conditional', 'no_init_assert_conditional', 'C11_parse_conditional', 'C11_toplevel_conditional', 'C11_first_conditional', 'C11_position_conditional',
         "C01_partial'_conditional", 'witness_later', 'witness_nested', 'witness_heredoc']]
T_C11T = [('Bashlex.C11.' + t, 'Bashlex.Props.C11Total') for t in ['C11_parserRun', 'no_init_assert', 'C11_parse', 'C11_parsesingle', "C01_partial'", 'C11_toplevel', 'C11_first', 'C11_position', "C11_later'", 'parserRun_good4']]
reg('C11', 'propchecks.c11', 'proof', T_C11T + T_C11 + (T1[:1] + TLEX) + [('Bashlex.Q.run_touched_irrelevant', QC), ('Bashlex.History.results_eq_solo', QC)], [ASCII, DEPTH, CORR,
    'Props/C11Total.lean: the hypothesis TokLen is GONE (the token-text theorem tokText supplies it; the invariant carries an empty look-ahead slot): C11_parse / C11_parsesingle / C11_parserRun (every escaping ParsingError at every depth has 0 <= p <= len(src): the assert of ParsingError.__init__ can never fire - no_init_assert), C11_first / C11_toplevel (a top-level error carries the input as its source; the here-document error the input with the appended newline), C11_position (unexpected EOF => p = len(src); unexpected token => p = lexpos of a delivered token with that repr) are unconditional for parse, parsesingle and runParser. ' +
    'unconditional: the tokenizer keeps its cursor inside the line (Good), every delivered token starts inside the line, every ParsingError raise site of the tokenizer and both p_error messages pass 0 <= p <= len(src) '
    '(the assert of ParsingError.__init__ cannot fire there), an error of a later part is the unchanged error of a run on the suffix (C11_later, finding D15 stated exactly). Conditional on TokLen (a backquote at index k of a '
    'token value lies inside the line; needed only for the bad-substitution error; no counterexample in 2.3M fuzzed tokens): position range for every escaping ParsingError at every depth, source of a top-level error = the input '
    '(the here-document error carries the appended newline), unexpected EOF => p = len(src), unexpected token => p = lexpos of a delivered token. Not proved: the text at p is the token'])

reg('C09', 'propchecks.lrcheck', 'proof', T1, ['the <= direction (every derivable sentence is accepted) is not proved: it is evaluated against an Earley recogniser on all enumerated token sequences', CORR])
C08M = 'Bashlex.Props.C08'
T_C08 = [('Bashlex.C08.' + t, C08M) for t in ['C08_accept_derivable', 'C08_accept_derivable_single', 'C08_rest_rejected', 'engine_good', 'run_consumed', 'mpPre_eof', 'csA_eof', 'parseMatchedPair_closes',
         'parseMatchedPair_sq_raises', 'C08_unterminated_squote', 'C08_unterminated_dquote', 'C08_unterminated_bquote', 'C08_leading_rparen', 'C08_leading_bar', 'C08_leading_semi',
         'run_rejects_leading', 'loop_rejects_pair', 'run_rejects_first_pair', 'redir_pairs', 'ctrl_pairs', 'leadingRejected_names', 'listHooks_rejects_leading', 'listHooks_rejects_redir',
         'C08_heredoc_unterminated', 'C08_heredoc_strict']]
T_C08 += [('Bashlex.C08.' + t, 'Bashlex.Props.C08More') for t in ['balance_ok', 'sentence_balanced', 'C08_unclosed_never_accepted', 'cert_ok', 'valid_noBad', 'C08_adjacent_never_accepted', 'C08_parts_clean',
          'C08_unterminated_brace', 'C08_unterminated_arith', 'unterminated_trigger', 'C08_accept_text_conditional']]
T_C08 += [('Bashlex.C08.' + t, 'Bashlex.Props.C08Text') for t in ['C08_accept_text_full', 'C08_accept_text', 'C08_accept_text_chars', 'C08_accept_text_final']] + [('Bashlex.LR.run_sound_ordC', 'Bashlex.Props.C08Text'), ('Bashlex.C05.leaves_hooksT', 'Bashlex.Props.C08Text')]
reg('C08', 'propchecks.c08', 'proof', T_C08 + T1, [ASCII, DEPTH, CORR,
    'Props/C08Text.lean: C08_accept_text_full (UNCONDITIONAL but for the fuel bound |s|+1 < 2^30; the hypothesis LogLink is gone - the C05 engine pass was redone with an invariant indexed by the consumed terminals: run_sound_ordC, leaves_hooksT): whenever parse returns parts, the runs tile the text of s, and each run has ONE token log that (a) is anchored in the text - Skip token Skip token ..., every position a leaf, layout or the look-ahead, here-document bodies conserved - and (b) spells, terminal by terminal, NEWLINEs followed by a sentence of the declared grammar; behind the last part the rest is layout. Nothing of an accepted input is left unparsed and nothing underivable is accepted. ',
    'Props/C08More.lean: C08_unclosed_never_accepted - for every token source, what the engine accepts is BALANCED (balance_ok, kernel-decided on the regenerated productions: #{ = #}, #if = #fi, #case = #esac, #do = #done, #[[ = #]], #if + #elif = #then, #( <= #), ...), so a stream that meets $end with an opener still open has no normal return; C08_adjacent_never_accepted - no accepted stream holds a doubled or dangling control operator among 28 pairs over ; & && || | |& (FIRST/LAST/nullable certificates checked by the kernel: cert_ok); the four pairs after ; are derivable (! ; ; a is accepted) and left out; C08_parts_clean: both facts for the run behind every returned part; C08_unterminated_brace / _arith (all lengths). C08_accept_text_conditional (the text-level tiling) keeps the hypothesis LogLink. ',
    'Props/C08*.lean (3050 lines): (1) C08_accept_derivable - NO PREFIX ACCEPTANCE: whenever parse returns parts, the runs tile the input (run i+1 starts at the restart index after part i, the last run ends at or beyond the end) and every run consumed '
    'leading NEWLINEs followed by exactly the yield of a valid derivation tree of the declared grammar rooted in an accepting symbol (engine_good, from C09_exact; run_consumed: the delivered terminals are consumed ++ at most one look-ahead); '
    '(2) unterminated quotes: mpPre_eof / csA_eof (end of input inside _parse_matched_pair / _parse_comsub IS the unexpected-EOF ParsingError), parseMatchedPair_closes, and for ALL lengths C08_unterminated_squote / _dquote / _bquote (plain prefix, then an opening quote never closed => that ParsingError at the end of input); '
    '(3) rejection families on the real tables for an ARBITRARY token source: run_rejects_leading (25 terminals - every control operator, closer and THEN/FI/DONE/... - after optional NEWLINEs), redir_pairs (after every redirection operator only WORD-like terminals are accepted), ctrl_pairs, loop_rejects_pair; end to end through the tokenizer C08_leading_rparen / _bar / _semi for every continuation of the input; '
    '(4) C08_heredoc_unterminated / C08_heredoc_strict: no delimiter line in strict mode (or once the body has begun) => the here-document ParsingError. Not proved: operator pairs where the second operator is reduced on before the error is found, $( and ${ at text level, a Logged instance of the real tokenizer; D9 (text dropped inside substitutions) concerns nested parsers and stays a per-input finding'])

C15M = 'Bashlex.Props.C15'
reg('C15', 'propchecks.c15', 'proof', [('Bashlex.Props.C15', C15M), ('Bashlex.Props.enters_visit', C15M), ('Bashlex.Props.reached_noprune', C15M),
     ('Bashlex.Props.visit_balanced', C15M), ('Bashlex.Props.preorder_mapPos', C15M), ('Bashlex.Props.kinds_covered', C15M)] +
    [('Bashlex.Props.' + t, 'Bashlex.Props.C15Gen') for t in ['visitD_unfold', 'visitT_eq_visit', 'visitT_evs', 'visitT_no_error', 'C15_gen', 'mapT_eq', 'mapT_total', 'posshifter_eq_shift',
     'mapT_assertShift', 'adjustpositions_gen', 'mapTs_assertShift', 'subclasses_ok', 'endfinder_gen']], [CORR,
    'Props/C15Gen.lean: the dispatch of nodevisitor.visit (per if/elif arm: kinds, callback attributes, the dochild guard, the traversal steps in order; visitnode first, visitnodeend last, else raises) and the '
    'visitor subclasses (posshifter, posconverter, the two shifting visitors of subst.py, _endfinder: which methods they override and what they rewrite) are TRANSLATED from ast.py / subst.py / parser.py on every run '
    '(Gen/Kinds.lean; the generator raises on any statement shape it does not know); visitT_eq_visit: the table-driven visitor over the generated table equals the hand-written model visit on every tree and prune predicate, '
    'so C15 and its corollaries are theorems about the generated visitor (C15_gen); posshifter_eq_shift, adjustpositions_gen, endfinder_gen tie Node.shift, _adjustpositions and the end finder of parse() to it'])

C06M = 'Bashlex.Props.C06'
T_C06 = [('Bashlex.C06.' + t, C06M) for t in ['C06_plain', 'C06_total', 'C06_partial', 'C06_partial_sat', 'C06_param', 'C06_param_spec',
         'expandwordinternal_plain', 'sat_expandwordinternal_param', 'contGo_hasContinuation']]
T_C06 += [('Bashlex.C06S.' + t, 'Bashlex.Props.C06Split') for t in ['C06_split_plain', 'split_terminates_plain', 'shlexSplit_chunks', 'C06_split_quoted', 'C06_split_quoted_dec', 'C06_split_quoted_features',
          'split_terminates_quoted', 'C06_verbatim', 'C06_verbatim_mem', 'C06_verbatim_word']]
reg('C06', 'propchecks.c06', 'proof', T_C06 + (T1[:1] + TLEX), [ASCII, DEPTH, CORR,
    'Props/C06Split.lean, Props/C06/S*.lean (3500 lines): C06_split_plain - on inputs of plain characters and blanks split returns exactly the maximal runs of non-blanks and so does shlex (no exception: split_terminates_plain, the fuel of its loop is adequate); shlexSplit_chunks - POSIX shlex is quote removal of the raw chunks (pure lemma); '
    'C06_split_quoted / _dec / _features - with single quotes, double quotes and backslashes, for chunks free of the recorded defect features (K1-K5, K8, K9/D33; shOK: no backslash before $ ` newline inside double quotes, where shlex itself deviates from the shell), split = shlex = quote removal of the chunks, assignment words included (after the repair of D46); '
    'C06_verbatim - for every nested parser, the value of a word is o0 ++ text(p1) ++ o1 ++ ... ++ text(pn) ++ on over all returned parts in order: command, process and parameter expansions and tildes are copied verbatim. Kernel-checked witnesses show each exclusion necessary. ',
    'C06_partial/C06_param: the value of a word token is Spec.quoteRemove of its text for every balanced token text free of the recorded defect features K1-K5, K8, K9 '
    '(and K7x, quotes inside ${...}, for words with parameters) whose QUOTED flag is consistent; words with command/process substitutions, backquotes, tildes and '
    'here-document bodies are decided per input against the same Lean definition'])

C07M = 'Bashlex.Props.C07'
T_C07 = [('Bashlex.C07.' + t, C07M) for t in ['C07_partial', 'C07_partial_single', 'C07_partial_subst', 'C07_word', 'C07_exact', "C07_exact'", 'C07_protected', 'C07_protected_internal', 'C07_nested',
         'sat_expandwordinternal', 'Reach.sorted', 'Reach.opener_accounted', 'Reach.escaped_not_head', 'dollar_span_tight', 'dollar_span_loose', 'stringextract_first', 'parserRun_G']]
reg('C07', 'propchecks.c07', 'proof', T_C07 + (T1[:1] + TLEX), [ASCII, DEPTH, CORR,
    'C07_partial: every word/assignment node of every successful parse (any depth) comes from a delivered token and its substitution parts are exactly the nested parser runs on the text after each opener the scan reaches, '
    'shifted to their offset, in scan order, disjoint, inside the word (PartsOK); C07_protected: a wholly single-quoted word and a word whose expansion characters are all backslash-escaped have no parts, for every nested parser. '
    'NOT proved: that the nested run (inherited last tokens, shared parser-state flags, the ")" end token) equals the stand-alone parse of the enclosed text, and that the token value is the source text - both decided per input; '
    'D6 (opener has no quote state), D9/D27 (loose span end) are reproduced with kernel-checked witnesses'])

C10M = 'Bashlex.Props.C10'
T_C10 = [('Bashlex.C10.' + t, C10M) for t in ['readline_spec', 'makeheredoc_spec', 'gather_spec', 'specGather_nil', 'specGather_cons', 'specGatherS_fifo',
         'gather_beyond_end', 'readtoken_gather_slot_empty', 'ofInput_noFinalBackslash', 'specHeredoc_value_suffix', 'specHeredoc_cursor',
         'specHeredoc_slice', 'specHeredoc_lines', 'specHeredoc_none', 'gather_top_eq_local', 'SimEq.top_eq_local']]
T_C10 += [('Bashlex.HeredocGen.' + t, 'Bashlex.Props.HeredocGen') for t in ['makeheredoc_gen', 'gatherBody_gen', 'gather_gen', 'msg_gen', 'heredoc_choices']]
reg('C10', 'propchecks.c10', 'proof', T_C10 + (T1[:1] + TLEX), [ASCII, CORR,
    'Props/HeredocGen.lean: heredoc.py (gatherheredocuments, makeheredoc) and tokenizer.readline are matched against fixed skeletons by the translator (any deviation raises) and every constant and choice they make is GENERATED data (Gen/Heredoc.lean: pop(0) vs pop(), the strict guard, which word is the delimiter - the raw token, no quote removal -, tab stripping iff <<-, the slice offsets of the comparison and of the stored line, the +1/-1 of the span and of the adjacency test, the error text); makeheredoc_gen / gather_gen: the model reader parametrised by these data, at the generated values, EQUALS the model reader, so the pure specifications below are statements about the reader with the source\'s constants; 12 edits of heredoc.py each break a theorem. ',
    'the theorems cover the reader (readline, makeheredoc, gatherheredocuments: FIFO pairing, body = lines up to the first line equal to the delimiter, span, cursor) '
    'given the queue of pending redirects; WHEN the parser queues a redirect relative to the tokenizer gathering (LALR look-ahead, defect D11) and quote removal of '
    'the delimiter (the raw token is compared) are decided per input'])

T7 = [('Bashlex.History.results_eq_solo', QC), ('Bashlex.History.result_get', QC), ('Bashlex.Q.run_touched_irrelevant', QC), ('Bashlex.Q.run_touched', QC),
      ('Bashlex.Q.run_frame', QC), ('Bashlex.parseFrom_touched_irrelevant', QC), ('Bashlex.runParser_touched_irrelevant', QC)]
reg('C18', 'propchecks.c18', 'proof', T7 + [('Bashlex.Props.C20.no_unlisted_shared_write', 'Bashlex.Props.C20'), ('Bashlex.Props.C20.shared_objects_known', 'Bashlex.Props.C20')], [ASCII, DEPTH, CORR, 'the only module-level state the model has is the set of sh_syntaxtab keys looked up; that the implementation has no other is observed (snapshots, fresh-interpreter comparison) and, statically, by the C20 write-site obligation'])

T7P = [('Bashlex.Pool.exec_value', QC), ('Bashlex.Pool.exec_pure', QC), ('Bashlex.Pool.exec_all', QC), ('Bashlex.Pool.exec_done', QC), ('Bashlex.Pool.exec_store_prefix', QC),
       ('Bashlex.Env.answer_eqModStore', QC), ('Bashlex.Q.run_touched_irrelevant', QC)]
reg('C19', 'propchecks.c19', 'proof', T7P + [('Bashlex.Props.C20.no_unlisted_shared_write', 'Bashlex.Props.C20')], [ASCII, CORR, 'the theorem is about the abstract interleaving model (atomic queries on one shared store); it cannot exhibit CPython preemption points, the atomicity of defaultdict.__missing__ under the GIL, or free-threaded builds: those are observed under the deterministic scheduler and stress runs'])

C02M = 'Bashlex.Props.C02'
T_C02 = [('Bashlex.C02.' + t, C02M) for t in ['C02_full_roundtrip3', 'C02_full_roundtrip2', 'C02_full_roundtrip_of2', 'tot_nextToken_gen', 'elem_step', 'gpe_run', 'C02_full_roundtrip', 'C02_simple_roundtrip', 'C02_seq_roundtrip', 'C02_pipeline_roundtrip', 'C02_andor_roundtrip', 'C02_lines_roundtrip', 'C02_oplines_roundtrip',
         'tot_nextToken_word', 'tot_nextToken_nl', 'tot_nextToken_semi', 'tot_nextToken_bar', 'tot_nextToken_and', 'tot_nextToken_or', 'run_line', 'run_seq', 'run_pipe', 'run_seqO', 'pe_run', 'run_seqE', 'parse_line']]
reg('C02', 'propchecks.c02', 'proof', T_C02 + T_ACT + (T1[:1] + TLEX), [ASCII, CORR,
    'C02_full_roundtrip3 (10400 lines in all) EXTENDS the sub-language below by ASSIGNMENTS (a=b c=d cmd args, assignment-only commands, and x a=b where a=b stays a word: ASSIGNMENT_WORD exactly when the word looks like an assignment and the position accepts one) and REDIRECTIONS > w, < w, >> w after the first item of a command (blanks allowed between operator and word; redirect nodes with their exact fields and spans); the earlier theorem follows formally through an embedding (C02_full_roundtrip_of2). Not covered: a redirection as first item, fd prefixes, & and |&, quoted words. ' +
    'Props/C02*.lean: the ROUND TRIP IS A THEOREM for a sub-language, about the real model (real tokenizer, the LR engine on the regenerated tables, real actions, word expansion, the loop of parse): C02_full_roundtrip - for every sequence of newline-separated lines, each a list (; && || in any mix) of pipelines (|) of simple commands made of plain words (first word of each command not reserved), with arbitrary blanks and tabs between words, around operators and at line ends, with or without a final newline, and for all options, parse returns EXACTLY the expected AST (kinds, nesting, operator and pipe nodes, word values, every span) - no exception possible (total-correctness calculus). '
    'Outside the theorem and decided per generated case by the Lean oracle Spec/Render.lean (translation-validation strength): quoting, expansions, assignments, redirections, compound commands, comments, continuations, & and |&. The proofs use 180 kernel-decided facts about concrete states of the regenerated tables: a renumbering of the grammar breaks them (then the per-case search decides). '
    'ActGen: ALL 39 semantic action functions and the helper _makeparts are TRANSLATED from parser.py on every run (Gen/Actions.lean; the generator raises on unknown statement shapes; Gen.untranslated = [p_error]) and proved equal to the model actions as monad computations (actgen_agree: 29 unconditionally, 10 under a decidable slice condition that records where the hand model names another failure site on ill-typed slices); the driver parse()/parsesingle()/_parser.parse/_endfinder is matched against fixed skeletons by the translator (any deviation raises) with its two constants generated (parseD_gen, driver_pieces)'])

C20M = 'Bashlex.Props.C20'
reg('C20', 'propchecks.c20', 'proof', [('Bashlex.Props.C20.' + t, C20M) for t in ['C20_static', 'no_effect_reachable', 'no_effect_reachable_guarded', 'no_unlisted_shared_write', 'reach_complete', 'closure_sound', 'engine_call_ok', 'yacc_args_ok', 'imports_ok', 'import_effects_listed', 'unresolved_listed', 'shared_objects_known']],
    ['the call graph is name-based and over-approximate (tools/extract.py, ast module); callables stored at import and invoked while parsing are covered by two stored-callable rules with the unresolved-calls obligation as a backstop',
     'effects inside the interpreter or C extensions that raise no audit event cannot be observed', CORR])
