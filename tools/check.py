#!/venv/bin/python
"""Entry point of every registered check:  ./check <Cxx> --tier quick|thorough [--replay FILE]

One run = regenerate Gen/ from /repo  ->  lake build (proofs re-checked against the regenerated
data)  ->  audit (forbidden constructs, #print axioms)  ->  correspondence run + specification
verdicts on the implementation's outcomes  ->  classification against known findings  ->
evidence file, VIOLATION / KNOWN-FINDING lines, exit code.
"""
import sys, os, json, time, subprocess, hashlib, fcntl, re, argparse, glob, traceback, importlib

VERIF = os.path.abspath(os.path.join(os.path.dirname(os.path.abspath(__file__)), '..'))
LEAN = os.path.join(VERIF, 'lean')
REPO = os.environ.get('VERIF_REPO', '/repo')
sys.path.insert(0, os.path.join(VERIF, 'tools'))
sys.path.insert(0, os.path.join(VERIF, 'tools', 'harness'))

ALLOWED_AXIOMS = {'propext', 'Classical.choice', 'Quot.sound'}
FORBIDDEN = re.compile(r'\b(sorry|admit|native_decide|bv_decide|implemented_by|unsafe)\b|^\s*axiom\s|maxHeartbeats\s+0\b')

def sh(cmd, cwd=None, timeout=3600, env=None):
    p = subprocess.run(cmd, cwd=cwd, stdout=subprocess.PIPE, stderr=subprocess.STDOUT, timeout=timeout,
                       env=env, shell=isinstance(cmd, str))
    return p.returncode, p.stdout.decode(errors='replace')

def strip_comments(text):
    # remove /- ... -/ (nested) and -- comments and string literals, roughly
    out = []; i = 0; depth = 0; n = len(text)
    while i < n:
        if text.startswith('/-', i): depth += 1; i += 2; continue
        if depth and text.startswith('-/', i): depth -= 1; i += 2; continue
        if depth: i += 1; continue
        if text.startswith('--', i):
            j = text.find('\n', i); i = n if j < 0 else j; continue
        if text[i] == '"':
            j = i + 1
            while j < n and text[j] != '"':
                j += 2 if text[j] == '\\' else 1
            i = j + 1; out.append('""'); continue
        out.append(text[i]); i += 1
    return ''.join(out)

def lean_sources():
    fs = sorted(glob.glob(os.path.join(LEAN, 'Bashlex', '**', '*.lean'), recursive=True))
    fs += [os.path.join(LEAN, 'Bashlex.lean'), os.path.join(LEAN, 'Driver.lean')]
    return [f for f in fs if os.path.exists(f)]

def module_of(path):
    rel = os.path.relpath(path, LEAN)
    return rel[:-5].replace(os.sep, '.')

def import_closure():
    """module -> set of modules it transitively imports (within the project)"""
    direct = {}
    for f in lean_sources():
        m = module_of(f)
        direct[m] = set(re.findall(r'^import\s+(Bashlex[\w.]*|Driver)\s*$', open(f).read(), re.M))
    clo = {}
    def go(m, seen):
        for d in direct.get(m, ()):
            if d not in seen:
                seen.add(d); go(d, seen)
        return seen
    for m in direct: clo[m] = go(m, set())
    return clo

class Prep:
    """result of the common preparation steps"""
    def __init__(self):
        self.extract = {}
        self.build_ok = True
        self.driver_ok = True
        self.failed_modules = []
        self.build_log = ''
        self.forbidden_hits = []
        self.axioms = {}        # theorem -> list of axioms, or None if it does not exist / failed
        self.closure = {}
        self.times = {}

def prepare(theorems, log=print):
    prep = Prep()
    lock = open(os.path.join(VERIF, '.lock'), 'w')
    fcntl.flock(lock, fcntl.LOCK_EX)
    try:
        t0 = time.time()
        rc, out = sh(['/venv/bin/python', os.path.join(VERIF, 'tools', 'extract.py'), '--repo', REPO])
        prep.times['extract'] = time.time() - t0
        try: prep.extract = json.loads(out.strip().splitlines()[-1])
        except Exception: prep.extract = {'raw': out[-500:]}
        if rc != 0 and not isinstance(prep.extract.get('failed'), dict):
            prep.extract = {'failed': {g: out[-1500:] for g in ('Tables', 'Lex', 'Kinds', 'Actions', 'Heredoc', 'Helpers', 'Effects', 'Rank')}}
        if prep.extract.get('failed'):
            log('extract failed for %s' % sorted(prep.extract['failed']))
        t0 = time.time()
        rc1, out1 = sh(['lake', 'build', 'driver'], cwd=LEAN)
        prep.driver_ok = rc1 == 0
        rc2, out2 = sh(['lake', 'build', 'Bashlex'], cwd=LEAN)
        prep.build_ok = rc2 == 0
        prep.build_log = (out1 if rc1 else '') + (out2 if rc2 else '')
        prep.failed_modules = sorted(set(re.findall(r'^- (Bashlex[\w.]*|Driver)\s*$', out1 + out2, re.M)))
        prep.times['build'] = time.time() - t0
        prep.closure = import_closure()
        # ---- audit ----
        t0 = time.time()
        srcs = lean_sources()
        h = hashlib.sha256()
        for f in srcs:
            h.update(f.encode()); h.update(open(f, 'rb').read())
        h.update(('\n'.join(sorted(theorems))).encode())
        key = h.hexdigest()
        cache_file = os.path.join(LEAN, '.lake', 'audit-%s.json' % key[:24])
        if os.path.exists(cache_file):
            c = json.load(open(cache_file))
            prep.forbidden_hits, prep.axioms = c['forbidden'], c['axioms']
        else:
            for f in srcs:
                if os.path.basename(f) in ('Driver.lean',) or f.endswith(os.path.join('Spec', 'PyVal.lean')):
                    text = strip_comments(open(f).read())   # driver-side files may use `partial`
                else:
                    text = strip_comments(open(f).read())
                    if re.search(r'^\s*partial\s+def\b', text, re.M):
                        prep.forbidden_hits.append('%s: partial def' % os.path.relpath(f, LEAN))
                for ln, line in enumerate(text.split('\n'), 1):
                    if FORBIDDEN.search(line):
                        prep.forbidden_hits.append('%s:%d: %s' % (os.path.relpath(f, LEAN), ln, line.strip()[:80]))
            prep.axioms = print_axioms(sorted(theorems), prep)
            if prep.build_ok:
                os.makedirs(os.path.dirname(cache_file), exist_ok=True)
                json.dump({'forbidden': prep.forbidden_hits, 'axioms': prep.axioms}, open(cache_file, 'w'))
        prep.times['audit'] = time.time() - t0
    finally:
        fcntl.flock(lock, fcntl.LOCK_UN); lock.close()
    return prep

def print_axioms(theorems, prep):
    """{theorem: [axioms]} via `#print axioms`; None for a theorem that does not check"""
    res = {}
    if not theorems: return res
    # group by module so that a broken module only loses its own theorems
    from props import THEOREM_MODULE
    bymod = {}
    for t in theorems: bymod.setdefault(THEOREM_MODULE[t], []).append(t)
    for mod, ts in sorted(bymod.items()):
        if mod in prep.failed_modules or any(d in prep.failed_modules for d in prep.closure.get(mod, ())):
            for t in ts: res[t] = None
            continue
        src = 'import %s\n' % mod + ''.join('#print axioms %s\n' % t for t in ts)
        tmp = os.path.join(LEAN, '.lake', 'Audit_%s.lean' % mod.replace('.', '_'))
        open(tmp, 'w').write(src)
        rc, out = sh(['lake', 'env', 'lean', tmp], cwd=LEAN)
        for t in ts:
            m = re.search(r"'%s' depends on axioms: \[([^\]]*)\]" % re.escape(t), out)
            if m: res[t] = [a.strip() for a in m.group(1).replace('\n', ' ').split(',') if a.strip()]
            elif re.search(r"'%s' does not depend on any axioms" % re.escape(t), out): res[t] = []
            else: res[t] = None
    return res

# ------------------------------------------------------------------------------------------------
def load_findings():
    return json.load(open(os.path.join(VERIF, 'known_findings.json')))

def write_replay(prop, payload):
    d = os.path.join(VERIF, 'replays'); os.makedirs(d, exist_ok=True)
    blob = json.dumps(payload, sort_keys=True, indent=1)
    name = '%s-%s.json' % (prop, hashlib.sha256(blob.encode()).hexdigest()[:12])
    path = os.path.join(d, name)
    open(path, 'w').write(blob)
    return os.path.relpath(path, VERIF)

def main():
    ap = argparse.ArgumentParser()
    ap.add_argument('prop')
    ap.add_argument('--tier', default=os.environ.get('VERIF_TIER', 'quick'), choices=['quick', 'thorough'])
    ap.add_argument('--replay')
    args = ap.parse_args()
    seed = int(os.environ.get('VERIF_SEED', '0') or 0)
    t_start = time.time()
    import props
    if args.prop not in props.REGISTRY:
        print('unknown property', args.prop); sys.exit(2)
    P = props.REGISTRY[args.prop]
    theorems = list(P.get('theorems', []))
    prep = prepare(theorems)
    findings = [f for f in load_findings()['findings'] if f['property'] == args.prop]

    violations = []      # dicts: what, replay payload
    notes = []
    # ---- proof obligations ----
    obligations = len(theorems)
    discharged = 0
    broken = []
    # thorough tier: the compiled modules that hold the property's theorems are replayed by leanchecker, the toolchain's
    # independent re-checker (cached by the hash of all Lean sources)
    rechecked = {}
    if args.tier == 'thorough' and prep.build_ok and not args.replay:
        h = hashlib.sha256()
        for f in lean_sources():
            h.update(f.encode()); h.update(open(f, 'rb').read())
        cache_file = os.path.join(LEAN, '.lake', 'leanchecker-%s.json' % h.hexdigest()[:24])
        cache = json.load(open(cache_file)) if os.path.exists(cache_file) else {}
        for m in sorted(set(props.THEOREM_MODULE[t] for t in theorems)):
            if m not in cache:
                t0 = time.time()
                rc, out = sh(['lake', 'env', 'leanchecker', m], cwd=LEAN, timeout=1800)
                cache[m] = dict(ok=(rc == 0), seconds=round(time.time() - t0, 1), output=out[-300:])
                json.dump(cache, open(cache_file, 'w'))
            rechecked[m] = cache[m]
            if not cache[m]['ok']: broken.append(('leanchecker:' + m, 'the independent re-checker rejects the module: ' + cache[m]['output']))
    for t in theorems:
        ax = prep.axioms.get(t)
        if ax is None: broken.append((t, 'does not check (module %s)' % props.THEOREM_MODULE[t]))
        elif not set(ax) <= ALLOWED_AXIOMS: broken.append((t, 'depends on axioms %s' % ax))
        else: discharged += 1
    mods = set(props.THEOREM_MODULE[t] for t in theorems)
    for hit in prep.forbidden_hits:
        f = hit.split(':')[0]
        m = f[:-5].replace('/', '.')
        if any(m == x or m in prep.closure.get(x, ()) for x in mods) or not mods:
            broken.append((hit, 'forbidden construct'))
    if not prep.driver_ok:
        broken.append(('driver', 'the model does not build: ' + prep.build_log[-400:]))
    # a generator of the translator that failed leaves its file stale: the theorems that rest on that file
    # (import closure of their modules) are no longer tied to the source
    for gname, why in sorted((prep.extract.get('failed') or {}).items()):
        gm = 'Bashlex.Gen.' + gname
        mods = set(props.THEOREM_MODULE[t] for t in P['theorems'])
        if any(gm == x or gm in prep.closure.get(x, ()) for x in mods):
            broken.append(('extract:' + gname, 'translator failed, %s.lean is stale: %s' % (gname, why[-400:])))

    # ---- correspondence + specification verdicts ----
    ctx = dict(tier=args.tier, seed=seed, prop=args.prop, findings=findings, prep=prep, replay=args.replay,
               proof_broken=bool(broken))
    result = dict(evaluations=0, distinct_nontrivial=0, samples=[], violations=[], finding_hits={}, corr_broken=[],
                  rule='', classes={}, extra={})
    if prep.driver_ok:
        try:
            mod = importlib.import_module(P['module'])
            result = mod.run(ctx)
        except Exception as e:
            traceback.print_exc()
            broken.append(('harness', 'check harness failed: %r' % (e,)))
    # ---- classification ----
    for v in result.get('violations', []):
        violations.append(v)
    lines = []
    exit_code = 0
    for v in violations[:25]:
        rp = write_replay(args.prop, v)
        lines.append('VIOLATION property=%s replay=%s' % (args.prop, rp))
    if not violations and (broken or result.get('corr_broken')):
        payload = dict(property=args.prop, kind='no-failing-input-found',
                       broken_obligations=[dict(name=n, why=w) for n, w in broken],
                       correspondence_mismatches=result.get('corr_broken', [])[:20],
                       note='the property is no longer shown to hold: a proof obligation or the model/implementation '
                            'correspondence does not check, and the search found no input on which the property fails')
        rp = write_replay(args.prop, payload)
        lines.append('VIOLATION property=%s replay=%s no-failing-input-found' % (args.prop, rp))
    for fid, hit in sorted(result.get('finding_hits', {}).items()):
        f = next((x for x in findings if x['id'] == fid), None)
        if f: print('KNOWN-FINDING: property=%s %s %s (e.g. %r)' % (args.prop, fid, f['what'], hit))
    for l in lines: print(l)
    if lines: exit_code = 1

    # ---- evidence ----
    level = P['level']
    cov = dict(evaluations=int(result.get('evaluations', 0)), distinct_nontrivial=int(result.get('distinct_nontrivial', 0)),
               rule=result.get('rule', ''), samples=result.get('samples', [])[:8] or ['(none)'],
               obligations=max(obligations, 1), discharged=discharged if obligations else 0,
               checker_cmd='cd lean && lake build Bashlex && lake env lean <#print axioms of the theorems below>',
               trusted_base=['Lean 4.33 kernel', 'axioms: ' + ', '.join(sorted(ALLOWED_AXIOMS)),
                             'tools/extract.py (translator of tables/grammar/source data)',
                             'tools/harness (canonicaliser, generators) and the model/implementation correspondence observed on the generated inputs'],
               theorems={t: prep.axioms.get(t) for t in theorems},
               broken=[dict(name=n, why=w) for n, w in broken],
               outcome_classes=result.get('classes', {}),
               known_findings_hit=sorted(result.get('finding_hits', {}).keys()),
               correspondence_mismatches=len(result.get('corr_broken', [])),
               translator=prep.extract, times=prep.times, leanchecker=rechecked, exhaustive=bool(result.get('exhaustive', False)))
    cov.update(result.get('extra', {}))
    if level == 'translation_validation':
        cov['programs'] = max(1, int(result.get('evaluations', 0)))
        cov['disagreements_checked'] = len(result.get('corr_broken', []))
    ev = dict(property_id=args.prop, tier=args.tier, seed=seed, level=level, coverage=cov,
              assumptions=P.get('assumptions', []), wall_s=round(time.time() - t_start, 2),
              violations=len(violations) + (1 if (not violations and lines) else 0))
    os.makedirs(os.path.join(VERIF, 'evidence'), exist_ok=True)
    tmp = os.path.join(VERIF, 'evidence', args.prop + '.json.tmp')
    json.dump(ev, open(tmp, 'w'), indent=1, sort_keys=True, default=str)
    os.replace(tmp, os.path.join(VERIF, 'evidence', args.prop + '.json'))
    print('%s tier=%s seed=%d evaluations=%d obligations=%d/%d findings=%s wall=%.1fs -> %s' % (
        args.prop, args.tier, seed, cov['evaluations'], discharged, obligations,
        ','.join(cov['known_findings_hit']) or '-', time.time() - t_start, 'FAIL' if exit_code else 'ok'))
    sys.exit(exit_code)

if __name__ == '__main__':
    main()
