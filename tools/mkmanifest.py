#!/usr/bin/env python3
"""Writes MANIFEST.json from the table below (keeps it valid and in one place)."""
import json, os
VERIF = os.path.abspath(os.path.join(os.path.dirname(os.path.abspath(__file__)), '..'))

TB = ('Trusted base: Lean 4.33 kernel; axioms propext, Classical.choice, Quot.sound only (audited by #print axioms on every run; no sorry/admit/axiom/'
      'native_decide/bv_decide/unsafe/partial in anything a theorem mentions); tools/extract.py (regenerates tables, grammar and source data from the '
      'working tree); the hand-written Lean model of tokenizer, LR engine, semantic actions, word expansion, here-documents and parse loop, tied to the '
      'code by the correspondence run (model and implementation on the same inputs, canonicalised outcomes compared); exact on ASCII; nesting <= 64.')

CHECKS = {
 'C01': dict(level='proof', technique='Lean 4 proof (LR engine safety on the regenerated tables) + model/implementation correspondence of outcome classes',
   text='Proved in Lean for every token source and all semantic actions: the LR engine on the tables regenerated from the source never fails internally '
        '(run_sound/real_WF: no KeyError/IndexError, stack discipline) and is the only loop of the engine bounded by fuel; the remaining sources of foreign '
        'exceptions (tokenizer, expansion, actions) are modelled with Python\'s failure modes and the model agrees with the implementation on outcome class '
        '(result shape / ParsingError / NotImplementedError / foreign(type, site) / timeout) for all three entry points under the option grid on every '
        'string up to a length bound plus generated scripts and mutations; Disciplined() is evaluated on every implementation outcome and every returned '
        'tree is deserialised into the typed AST (a non-node value in place of a tree is a violation).',
   note=TB + ' Absence of foreign exceptions inside the tokenizer/expander is observed (exhaustive short strings, generated scripts), not proved.'),
 'C03': dict(level='proof', technique='Lean 4 specification predicate evaluated on implementation outcomes + model correspondence; LR soundness proved',
   text='Spec.spansWF (Lean) is evaluated on every node of every tree the implementation returns; the model reproduces the implementation\'s trees '
        '(correspondence), so a span change shows as a disagreement or a failing verdict with the input as replay. Proved: soundness of the LR engine with '
        'value invariants for arbitrary token sources (run_sound), the vehicle for the action-level span invariants.',
   note=TB + ' The all-inputs span theorem (T2-spans) is not proved yet; exclusions are the listed known findings (D11, D19).'),
 'C04': dict(level='proof', technique='Lean 4 specification predicate evaluated on implementation outcomes + model correspondence',
   text='Spec.textOK (Lean): per kind, the source under a node\'s span is the node\'s spelling (operators/reserved words/pipes modulo line continuations, '
        'whole shell words by an independent quote-state scanner, $name/${..}/~/$(..)/`..`/<(..) forms, redirect = fd + operator + target), evaluated on every '
        'node of every returned tree incl. nested substitutions; contexts in which bashlex is known to misplace spans are part of the violation signature.',
   note=TB + ' Per-input evaluation against a Lean-defined oracle; no all-inputs theorem for the tokenizer\'s span bookkeeping.'),
 'C05': dict(level='proof', technique='Lean 4 specification predicate evaluated on implementation outcomes + model correspondence',
   text='Spec.coverOK (Lean): the leaf spans of the returned parts are disjoint and every character outside them is layout (blank, newline, comment, line '
        'continuation), evaluated on every accepted input; model correspondence on the same inputs.',
   note=TB + ' The leaf/token bijection is checked through the gaps (the token stream itself is not observable from outside).'),
 'C12': dict(level='proof', technique='Lean 4 typed AST + schema predicate evaluated on implementation outcomes + model correspondence; LR soundness with value invariants proved',
   text='Every returned tree is deserialised by a total function into the typed Lean AST (attribute sets and attribute types are then facts of the type; '
        'anything else is reported ill-typed) and Spec.schemaOK (sequence grammars of list/pipeline, kinds allowed per position, operator/pipe/redirect '
        'vocabularies) is evaluated on every node, under all option combinations incl. proceedonerror.',
   note=TB + ' The all-inputs schema theorem over the semantic actions (C12_partial) is under construction; exclusions are the listed known findings (D12, D19).'),
}

NOT_YET = {
 'C02': 'check under construction (render/denote oracle in Lean)',
 'C06': 'check under construction (quote-removal oracle in Lean)',
 'C07': 'check under construction', 'C08': 'check under construction', 'C09': 'check under construction',
 'C10': 'check under construction', 'C11': 'check under construction', 'C13': 'check under construction',
 'C14': 'check under construction', 'C15': 'check under construction', 'C16': 'check under construction',
 'C17': 'check under construction', 'C18': 'check under construction', 'C19': 'check under construction',
 'C20': 'check under construction',
}

def main():
    checks = []
    for pid, c in sorted(CHECKS.items()):
        checks.append(dict(property_id=pid, quick_cmd='./check %s --tier quick' % pid, thorough_cmd='./check %s --tier thorough' % pid,
                           evidence_file='evidence/%s.json' % pid, replay_cmd_template='./check %s --replay {path}' % pid,
                           engine='lean-model', level_claimed=dict(category=c['level'], text=c['text'], design_ref='DESIGN.md section 7 (%s)' % pid),
                           level_note=c['note'], technique=c['technique']))
    m = dict(version=1, setup_cmd='./setup.sh',
             hooks=dict(guard='BASHLEX_VERIF', enable='no source hooks are needed: observation is from outside (option probes, wrappers installed by the harness, settrace, audit hooks)',
                        baseline_off_cmd='cd /repo && /venv/bin/python -m pytest -ra -q -p no:cacheprovider --timeout=900 --continue-on-collection-errors',
                        source_commits=[], add_only=True),
             engines=[dict(name='lean-model', path='lean/', serves_properties=sorted(CHECKS), kind_free_text='Lean 4 model + theorems (lake build), compiled model driver (line protocol), Python harness running bashlex in-process')],
             checks=checks,
             not_applicable=[dict(property_id=k, reason=v) for k, v in sorted(NOT_YET.items()) if k not in CHECKS],
             notes='See DESIGN.md. known_findings.json lists genuine defects recorded (not repaired) and the fix: commits made to /repo.')
    json.dump(m, open(os.path.join(VERIF, 'MANIFEST.json'), 'w'), indent=1)
    print('MANIFEST.json written:', len(checks), 'checks,', len(m['not_applicable']), 'not claimed')

if __name__ == '__main__':
    main()
