#!/usr/bin/env python3
"""Writes MANIFEST.json from the table below (keeps it valid and in one place)."""
import json, os
VERIF = os.path.abspath(os.path.join(os.path.dirname(os.path.abspath(__file__)), '..'))

TB = ('Trusted base: Lean 4.33 kernel; axioms propext, Classical.choice, Quot.sound only (audited by #print axioms on every run; no sorry/admit/axiom/'
      'native_decide/bv_decide/unsafe/partial in anything a theorem mentions); tools/extract.py (regenerates tables, grammar and source data from the '
      'working tree); the hand-written Lean model of tokenizer, LR engine, semantic actions, word expansion, here-documents and parse loop, tied to the '
      'code by the correspondence run (model and implementation on the same inputs, canonicalised outcomes compared); exact on ASCII; nesting <= 64.')

CHECKS = {
 'C01': dict(level='proof', technique='Lean 4 proof (C01_partial: exception discipline and termination of the whole model, all inputs and options; LR engine safety on the regenerated tables) + model/implementation correspondence of outcome classes',
   text='C01_partial / C01_partial_single / C01_partial_split (Props/C01*.lean): for every input and all options the model of parse, parsesingle and split returns its '
        'documented result shape or raises ParsingError, NotImplementedError, one of 7 listed (type, site) pairs above the tokenizer (3 are the recorded defects D24/D18/D35 with kernel-checked '
        'witnesses), one of the 14 raise sites of the tokenizer, or the out-of-fuel marker of a loop covered by fuel only; every other AttributeError/TypeError/IndexError/AssertionError branch of the '
        'semantic actions and the engine is proved unreachable, and the loops of _expandwordinternal and parse() are proved to terminate. Also proved in Lean for every token source and all semantic actions: the LR engine on the tables regenerated from the source never fails internally '
        '(run_sound/real_WF: no KeyError/IndexError, stack discipline) and is the only loop of the engine bounded by fuel; the remaining sources of foreign '
        'exceptions (tokenizer, expansion, actions) are modelled with Python\'s failure modes and the model agrees with the implementation on outcome class '
        '(result shape / ParsingError / NotImplementedError / foreign(type, site) / timeout) for all three entry points under the option grid on every '
        'string up to a length bound plus generated scripts and mutations; Disciplined() is evaluated on every implementation outcome and every returned '
        'tree is deserialised into the typed AST (a non-node value in place of a tree is a violation).',
   note=TB + ' Absence of foreign exceptions inside the tokenizer/expander is observed (exhaustive short strings, generated scripts), not proved.'),
 'C03': dict(level='proof', technique='Lean 4 proof (C03_total_checked: every span clause on every node of every successful parse, no hypothesis left, one decidable per-input condition; the token-source hypothesis is discharged for the real tokenizer) + the same predicate evaluated on implementation outcomes; model correspondence',
   text='C03_total_conditional / C03_partial (Props/C03*.lean, Props/C03Total.lean, LR/SoundOrd.lean, Proofs/HoareS.lean, about 9000 lines): given RootEnds, for every input and all options every violated clause of Spec.spansWF on every node of every returned tree '
        'is one of the recorded defects (C03_known: the +heredoc, +emptydesc signatures and empty-span:reservedword, each with a kernel-checked witness): proved through an ordered-stack invariant of the LR engine (run_sound_ord, with kernel-checked table facts: every reduction but three runs with a look-ahead), one span lemma per action function, '
        'resolve of here-document redirects, the word contract of the expander and induction on nesting depth. Per input: Spec.spansWF (Lean) is evaluated on every node of every tree the implementation returns; the model reproduces the implementation\'s trees '
        '(correspondence), so a span change shows as a disagreement or a failing verdict with the input as replay. Proved: soundness of the LR engine with '
        'value invariants for arbitrary token sources (run_sound), the vehicle for the action-level span invariants.',
   note=TB + ' tokSpans discharges the token-source hypothesis for the real tokenizer (a walk of the whole tokenizer with a two-level cursor invariant; D31/D32 are documented exactly as the failing formulations). RootEnds (the root of a nested run does not end in two newlines unless a closing parenthesis follows) could not be derived; C03_total_checked replaces it by the decidable per-input condition rootEndsChecked (an instrumented parse, proved equal to parse, that checks every nested root; it cannot fire without two adjacent newlines in the text and held on 8.3 million generated runs). The correspondence is what the per-input evaluation carries. Exclusions are the listed known findings (D11, D19).'),
 'C04': dict(level='proof', technique='Lean 4 proof (tokText: the token-text relation PROVED for the real tokenizer; C04_partial_total: provenance of every node from delivered tokens, text of operator/pipe/reserved-word nodes, redirect and word structure; C04_total_conditional with RootEnds as the only hypothesis) + specification predicate evaluated on implementation outcomes; model correspondence',
   text='tokText / C04_partial_total / C04_prov_total / C04_spine_*_total / C04_redirect / C04_word_span (Props/C04*.lean, Props/C04Total.lean, 9200 lines): the token-text relation is proved for the whole tokenizer (the value of a delivered token followed by a residue is the text under its span with some backslash-newline pairs deleted; the residues are exactly the defects D31, D32, D31+D32 and NEWLINE over here-document bodies; the first formulation, only validated by #eval, was found false on rare inputs by the proof attempt and corrected); with it, unconditionally: every reserved-word, operator, pipe, redirect, word and assignment node at any depth is built from delivered tokens of the parser run that built it; operator, pipe and reserved-word nodes outside words carry exactly their text up to the recorded residues; a redirect consists of its first, operator and target tokens (numeric fd = a NUMBER spanning digits that denote it); a word node spans one token and its parts satisfy C07.PartsOK in that token\'s value (value_slice, dollar_text). Per input: Spec.textOK (Lean): per kind, the source under a node\'s span is the node\'s spelling (operators/reserved words/pipes modulo line continuations, '
        'whole shell words by an independent quote-state scanner, $name/${..}/~/$(..)/`..`/<(..) forms, redirect = fd + operator + target), evaluated on every '
        'node of every returned tree incl. nested substitutions; contexts in which bashlex is known to misplace spans are part of the violation signature.',
   note=TB + ' RootEnds is the only hypothesis left in C04_total_conditional (the provenance and leaf-text theorems are unconditional). The word clauses of textOK (whole word, cut short, starts late), adjacency of fd and operator, and the span of a here-document redirect are outside the theorem (Unlinked) and are decided per input.'),
 'C05': dict(level='proof', technique='Lean 4 proof (C05_total_checked: the leaves of every part are exactly the delivered tokens; C05_chars_checked: every character outside the leaves is layout, a look-ahead/time token or a gathered body; no hypotheses, decidable per-input condition rootEndsChecked) + specification predicate evaluated on implementation outcomes; model correspondence',
   text='C05_partial / C05_partial_parts / C05_tokens_in_leaves (Props/C05*.lean, LR/SoundOrdH.lean, 3300 lines): given RootEnds (the token-source hypothesis TokLog is discharged for the real tokenizer: tokLog, Props/C05Total.lean), for every input and all options parse returns one part per parser run, in order, and the leaves of each part (Spec.leaves) are exactly the tokens the run consumed, grouped '
        '([fd] operator target = one redirect leaf, here-document bodies attached as their own leaf or inside the extended redirect): no token is duplicated and the only tokens without a leaf are NEWLINEs in five listed grammar positions, each with a kernel-checked witness; defect D19 is characterised exactly (a d19 group) and excluded by a decidable predicate. '
        'Per input: Spec.coverOK (Lean): the leaf spans of the returned parts are disjoint and every character outside them is layout (blank, newline, comment, line '
        'continuation), evaluated on every accepted input; model correspondence on the same inputs.',
   note=TB + ' C05_total_checked has no hypothesis (rootEndsChecked is decidable per input, as in C03); the character level is proved (tokGaps_next for the real tokenizer, C05_chars_checked for the tree) up to two stated residuals: that every gathered here-document body is a leaf of the tree, and the link to the executable coverOK (its qsort); these and the correspondence are what the per-input evaluation carries.'),
 'C12': dict(level='proof', technique='Lean 4 typed AST + schema predicate evaluated on implementation outcomes + model correspondence; LR soundness with value invariants proved',
   text='PROVED for all inputs and all options (C12_partial, C12_partial_single, C12_only_pipelines; 4000 lines, by induction over arbitrary LR runs with a sort-indexed value invariant, an abstract type-checker of the actions decided by the kernel on the regenerated grammar, the real tokenizer\'s type/value consistency sat_nextToken, and induction on nesting depth): every node of every tree the model returns satisfies Spec.schemaOK except two named pipeline shapes. Tie: every returned tree is deserialised by a total function into the typed Lean AST (attribute sets and attribute types are then facts of the type; '
        'anything else is reported ill-typed) and Spec.schemaOK (sequence grammars of list/pipeline, kinds allowed per position, operator/pipe/redirect '
        'vocabularies) is evaluated on every node, under all option combinations incl. proceedonerror.',
   note=TB + ' C12_partial is about the model; it transfers to the implementation through the correspondence. Exclusions: BANG/timespec list_terminator (D12) and several leading ! in one pipeline.'),
}

CHECKS.update({
 'C02': dict(level='translation_validation', technique='Lean 4 oracle (generator + renderer + expected AST in one definition) evaluated per case; model correspondence',
   text='Abstract trees, their spellings and the AST a spelling denotes are ONE Lean definition (Spec/Render.lean, driven by a choice sequence): small trees are '
        'enumerated exhaustively, larger ones sampled; parse(rendered) is compared with the expected tree (kinds, nesting, operators, reserved words, word values, '
        'assignment classification, spans). The oracle checks itself on every case with the C03/C04/C05/C06/C12 predicates.',
   note=TB + ' Per-case evaluation against a Lean-defined oracle (translation-validation strength), not a theorem over all trees; LR soundness (C09_sound) is the proved part.'),
 'C06': dict(level='proof', technique='Lean 4 proof (C06_partial / C06_param: the expander equals Spec.quoteRemove on defect-feature-free token texts) + the same definition and POSIX shlex evaluated on implementation outcomes; model correspondence',
   text='C06_plain/C06_total/C06_partial/C06_param (Props/C06*.lean): for every balanced token text free of the recorded defect features K1-K5, K8, K9 (K7x for words with parameters) the model of _expandword '
        'returns exactly word(lexpos, endlexpos, quoteRemove(text)) with parameter nodes over quote-free text; each exclusion has a kernel-checked witness. Per input: Spec.quoteRemove (independent small-step definition keeping expansions verbatim) is compared with the value of every word/assignment node of every returned tree '
        '(all words up to a length bound over the quoting alphabet in nine word positions, plus generated scripts); split is compared with a Lean transcription of POSIX shlex '
        '(validated against Python shlex.split on every input) exhaustively on the plain/blank/quote/backslash alphabet. Deviations are classified by decidable features of the source (K1-K7).',
   note=TB + ' Words with command/process substitutions, backquotes and tildes are outside the theorem (decided per input); the K classes are the listed known findings.'),
 'C07': dict(level='proof', technique='Lean 4 proof (C07_partial: substitution parts are exactly the nested parser runs at the openers the scan reaches, shifted; C07_protected) + relation evaluated on implementation outcomes; model correspondence',
   text='C07_partial / C07_word / C07_exact / C07_protected (Props/C07*.lean, 2700 lines): for every input and all options, every word or assignment node at any depth comes from a delivered token; its substitution parts are the answers of the nested parser on the text after each opener '
        '($( <( >( backquote) the scan reaches, shifted to their offset, with the span formula made explicit (tight: through the closing parenthesis; loose: D9/D27), in scan order, disjoint and inside the word; openers are accounted for (a node, or one of four explicit ways of being skipped); a wholly single-quoted word and a word whose expansion characters are backslash-escaped have no parts, for every nested parser. '
        'Per input: for command texts A accepted alone and 13 embedding contexts the substitution node opened at the known offset must hold parse(A) shifted (relation in Lean); '
        'expansions under single quotes or backslashes in six word shapes must yield no substitution/parameter/tilde node.',
   note=TB + ' Not proved: that the nested run (inherited last tokens, shared parser-state flags, the closing-parenthesis end token) equals the stand-alone parse of the enclosed text, and that a token value is the source text; both are what the per-input relation decides. Exclusions are the known findings D6, D8, D9, D10, D27, D34.'),
 'C08': dict(level='proof', technique='Lean 4 proof: LR soundness on the regenerated tables (accepted => derivable); edit catalogue confirmed by bash -n',
   text='Proved (C09_sound, real_WF): whatever the LR engine accepts, in top-level and substitution mode, for every token source, is the yield of a derivation of the declared '
        'grammar, so no table artefact (conflict resolution, hand patches) lets an underivable token sequence through. String level: a catalogue of syntax-breaking edits of '
        'well-formed scripts, each confirmed invalid by GNU bash -n, must be rejected; model correspondence on the same inputs.',
   note=TB + ' bash -n only filters the catalogue. Quote/bracket balance of WORD tokens is observed, not proved.'),
 'C09': dict(level='proof', technique='Lean 4 proof (kernel-checked table well-formedness + engine soundness) ; engine-vs-model traces; Earley recogniser for the converse',
   text='tablesWF is decided by the kernel on the tables regenerated from the running code (after the import-time patches) and run_sound lifts it to: every accepted token '
        'sequence is derivable and the engine never fails internally (=> direction, all inputs). The real LRParser.parse is driven by a synthetic token source and compared with the '
        'Lean engine (verdict, tokens fetched, full reduction trace) on all sequences up to a length bound over six sub-alphabets in both modes; the <= direction is evaluated '
        'against an independent Earley recogniser on the same sequences.',
   note=TB + ' The <= direction (every derivable sentence is accepted) is bounded enumeration, not a theorem; known findings D8, D9.'),
 'C10': dict(level='proof', technique='Lean 4 proof (gather_spec / makeheredoc_spec / readline_spec: the here-document reader equals a pure specification, FIFO pairing) + Lean relation with the pairing known by construction; model correspondence',
   text='Props/C10*.lean: readline, makeheredoc and gatherheredocuments are proved EQUAL (as runs, for top-level and nested parsers) to pure specifications: the body is the lines up to and including the first line equal '
        'to the delimiter (<<- strips leading tabs), span (start, cursor-1), the queue of pending redirects is served first-in-first-out with consecutive bodies and is empty afterwards; specHeredoc_lines/_slice/_cursor show the '
        'specification is the intended one. Per input: inputs are built from their parts (1-3 operators, delimiter spellings, bodies, following text, enclosing construct), so operator position, body extent, tab stripping '
        'and the start of the following command are known; the Lean relation checks pairing in operator order, body span/value and the resume point on the implementation outcome.',
   note=TB + ' The theorems cover the reader given the queue; WHEN a redirect is queued relative to the look-ahead (D11: compound contexts) and quote removal of the delimiter (D11-quoted) are decided per input and are the known findings.'),
 'C11': dict(level='proof', technique='Lean 4 proof (C11_parse / C11_first / C11_position, unconditional: every escaping ParsingError has its position inside its source, a top-level error carries the input, unexpected EOF sits at the end, an unexpected token at the lexpos of a delivered token; C11_later) + Lean predicate on error triples; history independence theorems (QCongr); model correspondence of (message, source, position)',
   text='Props/C11*.lean (2660 lines, state-aware Hoare logic + automatic walk of the whole tokenizer): the cursor stays inside the line, every delivered token starts inside the line, every ParsingError built by the tokenizer and by p_error has 0 <= p <= len(src) (the assert in ParsingError.__init__ cannot fire there); the error of a later part is the unchanged error of a run on the suffix (C11_later: finding D15 stated exactly); and (Props/C11Total.lean, with the token-text theorem tokText supplying what TokLen assumed) unconditionally for parse, parsesingle and runParser: range of every escaping error at every depth (the assert can never fire: no_init_assert), source of a top-level error = the input (the here-document error: the input with the appended newline), unexpected EOF => p = len(src), unexpected token => p = lexpos of a delivered token with that repr. Per input: Eval.errOK (Lean) checks source = input, 0 <= position <= len, token text at position / EOF at len on every ParsingError of edits placed at top level, in '
        'substitutions, nested twice and in later lines; all calls run back to back in one process and the model (history-free, History.results_eq_solo) must agree on the triple.',
   note=TB + ' Known findings D15, D21 (nested / later-part parsers report their substring).'),
 'C13': dict(level='proof', technique='Lean 4 proof (C13_independence: parse(A ++ R) = parse(A) followed by the shifted parts of a fresh parse from the restart index, for every A whose runs are local; Q.run_prefix) + relation evaluated on outcomes',
   text='C13_independence / C13_partial / C13_first_part (Props/C13*.lean): parse is characterised as the fuel-free iteration of parser runs on suffixes (parse_unfold, Loop.det/total); for every A whose runs read nothing beyond their own text '
        '(parseLocal, decidable; implied by: no _getc returned None) and every R joined at a newline, parse(A ++ R) returns the parts of parse(A) followed by the parts of a fresh parse of the rest shifted to absolute offsets '
        '(nextIndex_shift, shift_shift): only the restart index flows between top-level commands. Witnesses (kernel-checked) show locality is necessary: a missing here-document in non-strict mode and a trailing backslash. Proved for every program in the query monad, hence for the whole parser model: a run that examines only tape cells < k and asks for no whole-input query gives the '
        'same result on every tape agreeing on those cells (Q.run_prefix, runParser_prefix). parse(A+sep+B) = parse(A) ++ shift(parse(B)) is evaluated (Lean relation) on pairs and '
        'triples of accepted commands x separators x options.',
   note=TB + ' Locality of the runs on A and BlankSkip (one run commutes with translation past blank lines before B; false for the constant-span node of D19 with proceedonerror) are hypotheses of the theorem, decided per input.'),
 'C14': dict(level='proof', technique='Lean 4 proof (runParser_shift: a parser run on a blank prefix followed by B is the run on B with every span moved; unconditional relational walk of tokenizer, expander, actions and engine) + relation (induced monotone span map) evaluated on outcomes; model correspondence',
   text='runParser_shift / blankSkip_run / C13_partial_blank (Props/C14*.lean, 5600 lines): a two-run relational logic with one lemma per tape accessor and an automatic walk (rel_walk) through the WHOLE tokenizer (matched pairs, command substitutions, words, here-documents), all of word expansion, all 39 action functions, the LR engine and nested parsers at every depth: for pre made of blanks, tabs and newlines and proceedonerror = false, runParser (pre ++ B) returns the result of runParser B with every span shifted by |pre| (a top-level ParsingError carries pre ++ src and p + |pre|; errors of nested parsers are identical); the token history differs (NEWLINE tokens instead of the initial placeholder) and every reader is shown to answer the same. Per input: for every accepted input and layout-only edits at inter-token gaps located from the leaf spans (widening, tabs, continuation, comment at end of line, leading blank '
        'lines, trailing newlines) the second parse must equal the first with spans mapped by the insertion map (Spec.relayout).',
   note=TB + ' Proved for a blank prefix (which also discharges the BlankSkip hypothesis of C13); layout edits between tokens in general, comments in the prefix and proceedonerror = true (D19: the constant (0,0) span of time, kernel-checked witness) are decided per input by the relation.'),
 'C15': dict(level='proof', technique='Lean 4 proof by structural induction over all trees and all prune predicates; trace comparison with a recording visitor',
   text='Proved (Props/C15.lean): for every tree of the typed AST and every prune predicate the visitor enters exactly the nodes reached in pre-order with pruned subtrees '
        'skipped, enter/leave events are balanced, mapPos (posshifter, _adjustpositions) rewrites the span of every node once; the kinds constructed in the sources are a subset of '
        'the dispatched kinds which have callbacks (regenerated data). The model visit is compared with a recording nodevisitor subclass on real trees, pruning at every node of small trees.',
   note=TB),
 'C16': dict(level='proof', technique='Lean 4 proof (C16_total_checked: the limited parse equals the pruned unlimited parse, under decidable per-input conditions only; heredocStable derived from the span theorem) + the relation evaluated on outcomes; model correspondence',
   text='C16_partial (Props/C16*.lean, 4400 lines): for every input, all options and every k, if the unlimited parse returns parts, flagsNeutral k s o and heredocStable k parts hold, then parse with expansionlimit=k returns exactly Spec.pruneLimitL k parts. Proved with a two-run relational logic on the model monad, '
        'naturality of every action function and of the LR engine in the word results (rel_action, rel_run), the word level with an abstract nested parser (rel_expandwordWith), an automatic frame walk of the whole tokenizer (frameHyp: the tokenizer neither reads nor writes the limit) and induction on nesting depth. Per input: parse(s, expansionlimit=k) must equal Spec.pruneLimit k (parse(s)) for k in 0..3 on inputs with substitutions nested up to depth 4 in every word position and on every line.',
   note=TB + ' heredocStable is now derived (Props/C16/Stable.lean: every node below a word ends inside the word; the outermost word ends before the part or before a surviving here-document body); what remains per input: flagsNeutral, noD19 and rootEndsChecked. flagsNeutral fails on rare inputs where a skipped nested parse would have changed the shared parser-state flags (the limited parse then accepts what the unlimited one rejects - the allowed direction); heredocStable needs span containment and stays a hypothesis; both are decided per input by the relation.'),
 'C17': dict(level='proof', technique='Lean 4 proof: parsesingle is the head of parse (parsesingle_eq_head, all inputs); an option that is never asked cannot matter (query congruence); relations evaluated on outcomes',
   text='parsesingle_eq_head / parsesingle_exn_iff / parsesingle_of_parse_exn (Props/C13/Single.lean): for all inputs and options, whenever parse returns parts parsesingle returns their head (None for []), parsesingle raises exactly when the first parser run raises, and '
        'when parse raises later parsesingle still returns the first part. Proved for the whole parser model: if a run never asks optStrict (resp. optProceed) the outcome is the same for both values, and conversely a differing outcome implies the '
        'query was made (parse_strict_irrelevant, parse_proceed_irrelevant, parsesingle_*). parsesingle = head of parse, convertpos = span-to-text map, strict/proceed change only '
        'here-document-at-EOF / NotImplementedError outcomes: Lean relations evaluated on every input x option pairs.',
   note=TB + ' The "as if replaced by a plain command" half of the proceedonerror clause is not checked; known findings D18, D19.'),
 'C18': dict(level='proof', technique='Lean 4 proof: history independence of every program in the query monad; fresh-interpreter comparison; module snapshots; static write-site obligation',
   text='Proved: the only store shared between calls is the set of sh_syntaxtab keys looked up, no answer depends on it, hence the i-th outcome of any history equals the solo outcome '
        '(History.results_eq_solo) and the store only grows by looked-up keys (Q.run_touched). Tie: every call of sequential, re-entrant and aborted histories is compared with the same call '
        'in a fresh interpreter and with the model; tables / token tables / eoftoken are snapshotted around every call; no_unlisted_shared_write on the regenerated write sites.',
   note=TB),
 'C19': dict(level='proof', technique='Lean 4 proof: interleaving independence of a pool of query programs; deterministic line-level scheduler and stress runs',
   text='Proved (Pool.exec_value, Pool.exec_all): under every schedule of atomic queries each thread returns its solo result. Runtime tie: per-thread outcomes under a deterministic '
        'line-level scheduler (sys.settrace, run-token hand-over, bounded preemptions) and under free-running stress are compared with fresh-interpreter solo outcomes.',
   note=TB + ' The theorem is about the abstract interleaving model; CPython preemption points, GIL atomicity of defaultdict.__missing__ and free-threaded builds are only observed.'),
 'C20': dict(level='proof', technique='Lean 4 kernel-checked reachability on the call graph / effect sites regenerated from the source; sys.addaudithook observation',
   text='Proved on data regenerated from the source on every run (C20_static): no function reachable from parse / parsesingle / split holds an effect site outside a short justified '
        'allow-list (each entry tied to the guard that keeps it dead), no unlisted module-level write, yacc.yacc is called with debug off and has no table writer. Tie: audit-hook '
        'events during thousands of calls on dangerous-looking inputs; package directory hash and cwd around import in a fresh interpreter.',
   note=TB + ' The graph is name-based (sound by over-approximation for direct calls; stored callables are covered by two rules plus the unresolved-calls obligation).'),
})

NOT_YET = {}

def main():
    checks = []
    for pid, c in sorted(CHECKS.items()):
        checks.append(dict(property_id=pid, quick_cmd='./check %s --tier quick' % pid, thorough_cmd='./check %s --tier thorough' % pid,
                           evidence_file='evidence/%s.json' % pid, replay_cmd_template='./check %s --replay {path}' % pid,
                           engine='lean-model', level_claimed=dict(category=c['level'], text=c['text'], design_ref='DESIGN.md section 7 (%s)' % pid),
                           level_note=c['note'], technique=c['technique']))
    m = dict(version=1, setup_cmd='./setup.sh',
             hooks=dict(guard='BASHLEX_VERIF', enable='no source hooks are needed: observation is from outside (option probes, wrappers installed by the harness, settrace, audit hooks)',
                        baseline_off_cmd='cd /repo && /venv/bin/python -m pytest -ra -q -p no:cacheprovider --timeout=900 --continue-on-collection-errors',
                        source_commits=[], add_only=True),
             engines=[dict(name='lean-model', path='lean/', serves_properties=sorted(CHECKS), kind_free_text='Lean 4 model + theorems (lake build), compiled model driver (line protocol), Python harness running bashlex in-process')],
             checks=checks,
             not_applicable=[dict(property_id=k, reason=v) for k, v in sorted(NOT_YET.items()) if k not in CHECKS],
             notes='See DESIGN.md. known_findings.json lists genuine defects recorded (not repaired) and the fix: commits made to /repo.')
    json.dump(m, open(os.path.join(VERIF, 'MANIFEST.json'), 'w'), indent=1)
    print('MANIFEST.json written:', len(checks), 'checks,', len(m['not_applicable']), 'not claimed')

if __name__ == '__main__':
    main()
