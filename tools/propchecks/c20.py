"""C20: parsing never executes or touches anything outside the process memory.
Static half: Props/C20.lean on the call graph / effect sites / write sites regenerated from the source
(kernel-checked reachability).  Dynamic tie: sys.addaudithook events during parse calls on inputs full of
substitutions, redirections to real paths and here-documents; package directory and cwd around import
in a fresh interpreter."""
import collections, random, json, subprocess, os, sys, tempfile
import canon, gen, runner
from propchecks import common

HERE = os.path.dirname(os.path.abspath(__file__))
AUDIT = os.path.join(HERE, '..', 'harness', 'audit_run.py')

def audit(req, cwd=None):
    p = subprocess.run(['/venv/bin/python', AUDIT], input=json.dumps(req).encode(), stdout=subprocess.PIPE, stderr=subprocess.PIPE, timeout=1200, cwd=cwd)
    if p.returncode != 0: raise RuntimeError('audit_run failed: ' + p.stderr.decode()[-500:])
    return json.loads(p.stdout.decode())

def allowed_event(ev, args):
    # the one dynamic import of the package itself (`from bashlex import parser` in subst._recursiveparse): already loaded, binds a name
    if ev == 'import' and ("'bashlex" in args): return True
    return False

def run(ctx):
    tier, seed, findings = ctx['tier'], ctx['seed'], ctx['findings']
    quick = tier == 'quick'
    rng = random.Random(seed + 20)
    danger = ['rm -rf /tmp/verif_c20_canary', 'echo x > /tmp/verif_c20_canary', 'a $(touch /tmp/verif_c20_canary)', 'a `touch /tmp/verif_c20_canary`',
              'cat < /etc/passwd > /tmp/verif_c20_canary', 'a <(curl http://127.0.0.1:9/)', 'eval "$(echo touch /tmp/verif_c20_canary)"', 'a <<E\n$(touch /tmp/verif_c20_canary)\nE\n',
              'x=$(id) y=`uname` z=$HOME ~root', 'exec 3<>/dev/tcp/127.0.0.1/9', 'source /tmp/verif_c20_canary; . /tmp/verif_c20_canary', 'export PATH=/tmp; env; printenv HOME']
    inputs = common.dedup(danger + common.corpus_inputs() + common.random_scripts(seed, 600 if quick else 10000, mutate=1))
    calls = []
    for s in inputs:
        calls.append(['parse', {}, s])
        if rng.random() < 0.3: calls.append(['parse', dict(strictmode=False, proceedonerror=True, convertpos=True, expansionlimit=1), s])
        if rng.random() < 0.15: calls.append(['split', {}, s])
        if rng.random() < 0.15: calls.append(['single', {}, s])
    if os.path.exists('/tmp/verif_c20_canary'): os.remove('/tmp/verif_c20_canary')
    res = audit(dict(repo=runner.REPO, calls=calls, mode='calls'))
    violations = []; sig_count = collections.Counter()
    def note(sig, detail):
        sig_count[sig] += 1
        if len(violations) < 25 and not any(v['signature'] == sig for v in violations):
            violations.append(dict(property='C20', signature=sig, **detail))
    for idx, ev, args in res['events']:
        if allowed_event(ev, args): continue
        note('audit-event:' + ev, dict(call=calls[idx], event=ev, args=args, how='sys.addaudithook during the call'))
    if os.path.exists('/tmp/verif_c20_canary'):
        note('canary-file-created', dict(how='a dangerous input was executed')); os.remove('/tmp/verif_c20_canary')
    # ---- import in a fresh interpreter, in an empty working directory ----
    with tempfile.TemporaryDirectory(prefix='verif_c20_') as d:
        imp = audit(dict(repo=runner.REPO, calls=[], mode='import'), cwd=d)
    if imp['listing_before'] != imp['listing_after']:
        changed = sorted(set(imp['listing_before'].items()) ^ set(imp['listing_after'].items()))
        note('import-changes-package-directory', dict(changed=changed[:10]))
    if imp['cwd_new']: note('import-writes-into-cwd', dict(files=imp['cwd_new']))
    if imp['modules']: note('import-loads-third-party-modules', dict(modules=imp['modules'][:10]))
    for idx, ev, args in imp['events']:
        if ev == 'open':
            # reading its own sources / the standard library is loading modules; anything opened for writing is not
            mode = args.split(',')[1].strip().strip("'\"") if ',' in args else ''
            if any(c in mode for c in 'wax+'): note('import-opens-for-writing', dict(args=args))
        elif ev.startswith(('subprocess.', 'socket.', 'os.system', 'os.exec', 'os.spawn', 'os.posix_spawn', 'os.remove', 'os.rename', 'os.mkdir', 'os.putenv', 'shutil.')):
            note('import-audit-event:' + ev, dict(args=args))
    return dict(evaluations=len(calls) + 1, distinct_nontrivial=len(inputs),
                rule='%d calls (parse / parsesingle / split, several option sets) on dangerous-looking commands (rm, redirections to a canary path, $(touch ..), eval, /dev/tcp, '
                     'here-documents with substitutions), the corpus and seeded generated scripts with mutations, each under a sys.addaudithook observer watching open/os.*/'
                     'subprocess/socket/exec/compile/import/... events raised while the call runs; plus import in a fresh interpreter inside an empty directory with a content '
                     'hash of the package directory before and after' % len(calls),
                samples=calls[:3] + calls[-2:],
                violations=violations, finding_hits={}, corr_broken=[], classes={},
                extra=dict(signature_counts=dict(sig_count), audit_events_seen=len(res['events']), import_events=len(imp['events'])))
