"""C08: ill-formed command lines are rejected.  Syntax-breaking edits of well-formed generated
scripts; an edit counts only if GNU `bash -n` confirms it is invalid (bash is never the oracle of
the property, it only filters the catalogue)."""
import collections, random, json, subprocess, re, os
import canon, gen, runner
from propchecks import common

RESERVED_RE = re.compile(r'(?<![\w$-])(then|fi|do|done|esac|in|elif|else)(?![\w-])')

# (operator, delimiter, body lines): no body line equals the delimiter (for <<- after stripping leading tabs), so the document is unterminated
HEREDOC_OPEN = [('<<', 'E', ['\tE']), ('3<<', 'EOF', ['foo', '\tEOF']), ('0<<', 'E', ['\t\tE', 'E ']), ('<<', 'E', ['E ', ' E', 'EE', 'xE']),
                ('<<-', 'E', [' E', '\t E', 'E x', '\tEE']), ('3<<-', 'E', [' \tE', 'E\t']), ('<<', 'E', []), ('<<', 'a-b', ['a-', '-b', 'a-b ']),
                ('<<', 'E', ['x', '\\E']), ('1<<', 'E', ['\tE', '\tE'])]

def edits(rng, s):
    """catalogue of syntax-breaking edits (candidates; confirmed by bash -n)"""
    out = []
    for m in RESERVED_RE.finditer(s):
        out.append(('delete-reserved:' + m.group(1), s[:m.start()] + s[m.end():]))
        # the separator that makes the closing word a reserved word: without it `esac`/`fi`/`done`/`}` is an argument
        pre = re.search(r'(;;&|;;|;&|;|\n)[ \t]*$', s[:m.start()])
        if pre and m.group(1) in ('esac', 'fi', 'done', 'then', 'do', 'else', 'elif', '}'):
            out.append(('delete-separator-before:' + m.group(1), s[:pre.start()] + ' ' + s[m.start():]))
        out.append(('duplicate-reserved:' + m.group(1), s[:m.end()] + ' ' + m.group(1) + s[m.end():]))
    for ch in '(){}':
        for m in re.finditer(re.escape(ch), s):
            out.append(('delete-bracket:' + ch, s[:m.start()] + s[m.end():]))
    for q in '"\'`':
        idx = [m.start() for m in re.finditer(re.escape(q), s)]
        if idx:
            i = rng.choice(idx); out.append(('delete-quote:' + q, s[:i] + s[i+1:]))
    for op in ['&&', '||', '|', ';', '&']:
        for m in re.finditer(re.escape(op), s):
            out.append(('double-operator:' + op, s[:m.end()] + ' ' + op + s[m.end():]))
    for op in ['&&', '||', '|', ';']:
        out.append(('leading-operator:' + op, op + ' ' + s))
    for op in ['&&', '||', '|']:
        out.append(('dangling-operator:' + op, s.rstrip('\n') + ' ' + op))
    for m in re.finditer(r'(?<![<>&\d])(>>|>|<)(?![<>&(|])\s*[^\s<>|&;()]+', s):
        out.append(('redirect-without-target', s[:m.start()] + m.group(1) + ' ;' + s[m.end():]))
    out.append(('unterminated-heredoc', s.rstrip('\n') + ' <<NEVER\nbody\n'))
    # unterminated here-documents whose body holds look-alikes of the delimiter line (judged by construction, see HEREDOC_OPEN: bash -n only
    # warns about them): operator variants (fd prefix, <<-) x lines that differ from the delimiter by a tab, a blank, a prefix or a suffix
    if '#' not in s.rstrip('\n').rsplit('\n', 1)[-1] and '<<' not in s:       # (appended to a base with a here-document of its own the text would land in that body)
        for op, dl, body in rng.sample(HEREDOC_OPEN, 2):
            t = s.rstrip('\n') + ' ' + op + dl + '\n' + '\n'.join(body)
            out.append(('unterminated-heredoc:' + op, t + rng.choice(['', '\n'])))
    out.append(('stray-rparen', s.rstrip('\n') + ' )'))
    out.append(('stray-rbrace-group', '{ ' + s.rstrip('\n')))
    out.append(('unclosed-subshell', '( ' + s.rstrip('\n')))
    out.append(('unclosed-substitution', 'a $(' + s.rstrip('\n')))
    rng.shuffle(out)
    # the here-document family is kept whatever the sample
    keep = [x for x in out if x[0].startswith('unterminated-heredoc:')]
    return [x for x in out if not x[0].startswith('unterminated-heredoc:')][:12] + keep

def bash_rejects(script):
    try:
        p = subprocess.run(['bash', '--norc', '--noprofile', '-n'], input=script.encode(), stdout=subprocess.DEVNULL,
                           stderr=subprocess.DEVNULL, timeout=5, env={'PATH': '/usr/bin:/bin'})
        return p.returncode != 0
    except Exception:
        return False

def run(ctx):
    tier, seed, findings = ctx['tier'], ctx['seed'], ctx['findings']
    quick = tier == 'quick'
    rng = random.Random(seed + 8)
    bl = runner.get_bashlex()
    have_bash = os.path.exists('/usr/bin/bash') or os.path.exists('/bin/bash')
    base = [s for s in common.corpus_inputs() if len(s) < 120] + common.random_scripts(seed, 400 if quick else 6000, wrap=0, unsupported=0, heredocs=False)
    # interactions of two features: compound commands inside substitutions inside other constructs
    comps = ['if b; then c; fi', 'while b; do c; done', 'for i in 1 2; do c; done', 'case y in p) c;; esac', '{ b; c; }', '( b; c )', 'b | c', 'b && c', 'f() { b; }', 'until b; do c; done', 'if b; then c; else d; fi']
    embeds = ['case x in a) echo $(%s);; esac', 'case x in a) y=$(%s);; b) c;; esac', 'case x in $(%s)|c) d;; esac', 'case x in a) e `%s`;; esac', 'a $(%s) b', 'a "$(%s)" b', 'a `%s` b', 'f() { a $(%s); }',
              'if a; then b $(%s); fi', 'a <(%s) c', 'a | b $(%s) && c', 'for i in $(%s); do a; done', 'x=$(%s) y', 'a $(b $(%s))', '{ a $(%s); }', '( a `%s` )', 'while a $(%s); do b; done', 'a >$(%s)', 'a <<<$(%s)']
    base += [e % c for e in embeds for c in (comps if not quick else rng.sample(comps, 4))]
    cases = []
    okbase = []
    for s in common.dedup(base):
        try:
            if not bl.parse(s): continue
        except Exception:
            continue
        okbase.append(s)
    if have_bash:
        # the base itself must be well-formed for bash too (bash -n runs, 16 at a time)
        from concurrent.futures import ThreadPoolExecutor
        with ThreadPoolExecutor(16) as ex: rej = list(ex.map(bash_rejects, okbase))
        okbase = [s for s, r in zip(okbase, rej) if not r]
    for s in okbase:
        for kind, e in edits(rng, s):
            cases.append((kind, e))
    cases = [(k, e) for (k, e) in dict((e, k) for k, e in cases).items()] if False else list({e: (k, e) for k, e in cases}.values())
    if ctx.get('replay'):
        rp = json.load(open(ctx['replay'])); cases = [(rp.get('edit', '?'), rp['input'])]
    reqs = [('parse', {}, e) for _, e in cases]
    classes = collections.Counter(); corr_broken = []; violations = []; finding_hits = {}; sig_count = collections.Counter()
    confirmed = 0
    for (kind, e), (req, i, m, it, mt) in zip(cases, runner.run_all(reqs)):
        ci = runner.outcome_class(i)
        classes[ci] += 1
        if ci != runner.outcome_class(m):
            corr_broken.append(dict(request=[req[0], req[1], req[2]], impl=i[:300], model=m[:300]))
        if ci in ('ok', 'ok-empty'):
            # (an unterminated here-document only earns a warning from bash -n: those edits are invalid by construction)
            if have_bash and not kind.startswith('unterminated-heredoc:') and not bash_rejects(e): continue       # the edit did not break the syntax
            confirmed += 1
            ctxs = []
            if re.search(r'\$\([^)]*\n', e) or re.search(r'`[^`]*\n', e) or re.search(r'[<>]\([^)]*\n', e): ctxs.append('+multiline-substitution')
            if kind.split(':')[0] == 'unterminated-heredoc' and re.search(r'[({]|\bdo\b|\bthen\b', e): ctxs.append('+heredoc-in-compound')
            # is the syntax error inside the operand of a ${...}?  (bashlex delimits ${...} at the first '}' and never looks inside)
            e2 = re.sub(r'\$\{[^}]*\}', 'X', e)
            if e2 != e and have_bash and not bash_rejects(e2): ctxs.append('+in-brace-operand')
            # ... or inside a <( ) / >( ) that bashlex does not parse because the word starts with a double quote (D6-leading-dquote)?
            e3 = re.sub(r'("[^"\n]*"[^\s<>()]*)[<>]\([^)]*\)', r'\1X', e)
            if e3 != e and have_bash and not bash_rejects(e3): ctxs.append('+in-unparsed-procsub')
            sig = 'accepted:' + kind.split(':')[0] + ''.join(ctxs)
            sig_count[sig] += 1
            fid = common.match_finding(findings, sig, e)
            if fid: finding_hits.setdefault(fid, e[:80])
            elif len(violations) < 25 and not any(v['signature'] == sig for v in violations):
                violations.append(dict(property='C08', input=e, edit=kind, signature=sig, impl_outcome=i[:1000],
                                       how='bashlex.parse returned a tree for an input GNU bash -n rejects'))
        else:
            confirmed += 1
    return dict(evaluations=len(cases), distinct_nontrivial=confirmed,
                rule='well-formed inputs (corpus + seeded generated scripts accepted by bashlex) x up to 10 syntax-breaking edits each from the catalogue '
                     '(delete/duplicate a reserved word, delete a bracket or quote, double/leading/dangling operator, redirect without target, unterminated '
                     'here-document, stray ) or unclosed ( { $( ); an accepted edit counts only when bash -n rejects it; non-trivial = edits rejected by bashlex '
                     'or confirmed invalid',
                samples=[c[1] for c in cases[:3] + cases[-3:]],
                violations=violations, finding_hits=finding_hits, corr_broken=corr_broken, classes=dict(classes),
                extra=dict(signature_counts=dict(sig_count), bash_available=have_bash))
