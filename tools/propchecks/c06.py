"""C06: word values are the source word after quote removal (Spec/Quote.lean, evaluated on the
implementation's trees); split versus POSIX shlex on the plain/blank/quote/backslash alphabet."""
import collections, random, json, itertools, shlex
import canon, gen, runner
from propchecks import common
from propchecks.relprops import rel_batch

QALPHA = ['a', 'b', "'", '"', '\\', ' ', '$', '`', '\n']
SALPHA = ['a', 'b', "'", '"', '\\', ' ']
# words around ${...}: quotes and braces inside and after a parameter expansion
PALPHA = ['${a', '}', "'", '"', '\\', 'b', ':-', '$c']
CONTEXTS = ['%s', 'c %s', 'v=%s', 'c >%s', 'for i in %s; do c; done', 'case %s in x) c;; esac', 'case x in %s) c;; esac', 'c <<<%s', 'c x%sy']

def run(ctx):
    tier, seed, findings = ctx['tier'], ctx['seed'], ctx['findings']
    quick = tier == 'quick'
    bl = runner.get_bashlex()
    wl = 4 if quick else 5
    words = [''.join(t) for n in range(1, wl + 1) for t in itertools.product(QALPHA, repeat=n)]
    rng = random.Random(seed + 6)
    pwords = [''.join(t) for n in range(2, (4 if quick else 5) + 1) for t in itertools.product(PALPHA, repeat=n) if '${a' in t]
    words = words + (rng.sample(pwords, 1500) if quick else pwords)
    inputs = common.finding_witnesses(findings) + common.corpus_inputs()
    for w in words:
        if ' ' in w.replace("' '", '').replace('" "', '') and rng.random() < 0.7: continue     # mostly single words
        cs = CONTEXTS if not quick else rng.sample(CONTEXTS, 2)
        for c in cs: inputs.append(c % w)
    inputs += common.random_scripts(seed, 400 if quick else 6000)
    inputs = common.dedup(inputs)
    if ctx.get('replay'):
        rp = json.load(open(ctx['replay'])); inputs = [rp['input']] if rp.get('entry', 'parse') == 'parse' else []
    reqs = [('parse', {}, s) for s in inputs]
    classes = collections.Counter(); corr_broken = []; violations = []; finding_hits = {}; sig_count = collections.Counter()
    items = []; keep = []; nontrivial = set()
    for (req, i, m, it, mt) in runner.run_all(reqs):
        classes[runner.outcome_class(i)] += 1
        if common.obs_tree(i) != common.obs_tree(m): corr_broken.append(dict(request=[req[0], req[1], req[2]], impl=i[:300], model=m[:300]))
        if i.startswith('OK [{'): items.append((req[2], i)); keep.append(req); nontrivial.add(req[2])
    def note(sig, s, entry, outcome):
        sig_count[sig] += 1
        fid = common.match_finding(findings, sig, s)
        if fid: finding_hits.setdefault(fid, s[:80])
        elif len(violations) < 25 and not any(v['signature'] == sig for v in violations):
            violations.append(dict(property='C06', input=s, entry=entry, signature=sig, impl_outcome=outcome[:1500],
                                   how='Spec.quoteRemove / shlexSplit (lean/Bashlex/Spec/Quote.lean) versus the implementation\'s word values'))
    for k in range(0, len(items), 2000):
        for req, (s, o), res in zip(keep[k:], items[k:k + 2000], common.spec_batch(['C06'], items[k:k + 2000])):
            for sig in (['ill-typed'] if 'ILL' in res else res.get('C06', [])): note(sig, s, 'parse', o)
    # ---- split versus shlex ----
    sl = 5 if quick else 7
    sinputs = [''.join(t) for n in range(0, sl + 1) for t in itertools.product(SALPHA, repeat=n)]
    # '=' is a plain character too: a word with '=' in command position is an ASSIGNMENT_WORD token, which split must treat like any word
    sinputs += [''.join(t) for n in range(2, (5 if quick else 6) + 1) for t in itertools.product(['a', '=', "'", '"', '\\', ' '], repeat=n) if '=' in t]
    sinputs += ["a='b' c", 'a=\\b', "x a='b'", 'a="b c" d', 'a+=b c', "a='b'\"c\" d", 'if a=b', "a=b c='d e'", '1=a', "a==''"]
    sinputs = common.dedup(sinputs)
    if ctx.get('replay'):
        rp = json.load(open(ctx['replay'])); sinputs = [rp['input']] if rp.get('entry') == 'split' else []
    sreqs = [('split', {}, s) for s in sinputs]
    souts = []
    for (req, i, m, it, mt) in runner.run_all(sreqs):
        classes['split:' + runner.outcome_class(i)] += 1
        if common.obs_tree(i) != common.obs_tree(m): corr_broken.append(dict(request=[req[0], req[1], req[2]], impl=i[:300], model=m[:300]))
        souts.append(i)
    # validate the Lean transcription of shlex against Python's shlex.split on the same inputs
    lines = ['rel\tshlex:\t%s' % (canon.enc_input(s) or '-') for s in sinputs]
    transcription_bad = []
    reps = []
    for k in range(0, len(lines), 20000): reps += runner.model_batch(lines[k:k + 20000])
    for s, rep in zip(sinputs, reps):
        try: want = 'STRS ' + canon.canon(shlex.split(s), bl.ast.node)
        except ValueError: want = 'ValueError'
        if rep != want: transcription_bad.append((s, rep, want))
    if transcription_bad:
        raise RuntimeError('Lean shlexSplit disagrees with Python shlex.split: %r' % (transcription_bad[:3],))
    sitems = [('C06split', [], s, [o]) for s, o in zip(sinputs, souts)]
    for k in range(0, len(sitems), 5000):
        for (s, o), sigs in zip(list(zip(sinputs, souts))[k:k + 5000], rel_batch(sitems[k:k + 5000])):
            for sig in sigs: note(sig, s, 'split', o)
    return dict(evaluations=len(reqs) + len(sreqs), distinct_nontrivial=len(nontrivial) + len(sinputs),
                rule='words: every string up to length %d over {a b \' " \\ blank $ `} placed in word positions (command, argument, assignment value, redirect '
                     'target, for word, case word, pattern, here-string, infix) + corpus + seeded generated scripts; split: every string up to length %d over '
                     '{a b \' " \\ blank} versus POSIX shlex (Lean transcription, validated against Python shlex.split on every input)' % (wl, sl),
                samples=inputs[:2] + inputs[-2:] + sinputs[-2:],
                violations=violations, finding_hits=finding_hits, corr_broken=corr_broken, classes=dict(classes),
                exhaustive=True, extra=dict(signature_counts=dict(sig_count), words_checked=len(items), split_inputs=len(sinputs)))
