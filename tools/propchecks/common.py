"""Shared machinery of the per-property checks."""
import os, sys, re, random, collections, json
import canon, gen, runner

VERIF = runner.VERIF

GRID_FULL = [dict(strictmode=st, expansionlimit=l, convertpos=c, proceedonerror=p)
             for st in (True, False) for l in (None, 0, 1, 2) for c in (False, True) for p in (False, True)]

def corpus_inputs():
    return (gen.corpus_files(os.path.join(VERIF, 'corpus')) + gen.harvest_test_strings(runner.REPO) + gen.HANDWRITTEN)

def finding_witnesses(findings):
    return [f['witness'] for f in findings if isinstance(f.get('witness'), str)]

def random_scripts(seed, n, mutate=0, wrap=0.15, **genopts):
    rng = random.Random(seed)
    g = gen.Gen(rng, **genopts)
    out = []
    for _ in range(n):
        s = g.script()
        out.append(s)
        for _ in range(mutate): out.append(gen.mutate(rng, s))
        if rng.random() < wrap: out.append(gen.wrap(rng, s))
    return out

def dedup(seq):
    seen = set(); out = []
    for x in seq:
        if x not in seen: seen.add(x); out.append(x)
    return out

def match_finding(findings, signature, inp=None):
    for f in findings:
        if re.fullmatch(f['signature'], signature):
            if 'input_regex' in f and inp is not None and not re.search(f['input_regex'], inp, re.S):
                continue
            return f['id']
    return None

def spec_batch(props, items):
    """items: list of (source, impl outcome line) -> list of {prop: [signatures]} or {'ILL': reason}"""
    lines = ['spec\t%s\t%s\t%s' % (','.join(props), canon.enc_input(s) or '-', o) for s, o in items]
    res = []
    for rep in runner.model_batch(lines):
        if rep.startswith('ILL:'):
            res.append({'ILL': rep[4:]}); continue
        d = {}
        for item in rep.split(' '):
            p, _, v = item.partition(':')
            d[p] = [x for x in v.split(',') if x]
        res.append(d)
    return res

def obs_tree(line):
    """observable for tree properties: the whole tree when there is one, else only the class"""
    if line.startswith('OK ') or line.startswith('ONE ') or line.startswith('STRS '): return line
    return runner.outcome_class(line)
