"""C10: each '<<' gets exactly the body that follows its line.  The generator builds the input
from its parts, so the intended pairing (operator position, body extent, tab stripping, start of the
following command) is known by construction and handed to the Lean relation (Eval.relEval "C10")."""
import collections, random, json
import canon, gen, runner
from propchecks import common
from propchecks.relprops import rel_batch

DELIMS = [('E', 'E', ''), ('EOF', 'EOF', ''), ("'E'", 'E', '+quoted-delim'), ('"E"', 'E', '+quoted-delim'), ('\\E', 'E', '+quoted-delim'), ('E1', 'E1', ''), ('a-b', 'a-b', '')]
BODIES = [[], ['x'], ['x', 'y z'], [''], ['', 'x', ''], ['Ex'], [' E'], ['xE'], ['\tq'], ['\t\tq', '\tE2'], ['a\\', 'b'], ['$(a)', '`b`'], ['#c'], ['E E']]
FOLLOW = ['', 'after', 'after x\n', '\nafter']
WRAPS = [('%s', ''), ('%s | c', ''), ('c && %s', ''), ('c; %s', ''), ('( %s\n)', '+compound'), ('{ %s\n}', '+compound'), ('if %s\nthen c; fi', '+compound'),
         ('f() { %s\n}', '+compound'), ('while %s\ndo c; done', '+compound'), ('case x in a) %s\n;; esac', '+compound'), ('! %s', ''), ('%s &', ''),
         # the operator line is continued on the next line / a token follows the command inside a compound (the redirect is reduced before the newline is read)
         ('%s |\nc', ''), ('%s &&\nc', ''), ('c | %s ||\nd', ''), ('{ %s;\n}', ''), ('( %s;\n)', ''), ('if %s; then\nc; fi', ''), ('while %s; do\nc; done', ''), ('f() { %s;\n}', '')]

def build(rng):
    k = rng.choice([1, 1, 1, 2, 2, 3])
    ops = []
    cmd = 'cat'
    tags = ''
    for i in range(k):
        spell, delim, t = rng.choice(DELIMS)
        dash = rng.random() < 0.3
        fd = rng.choice(['', '', '3'])
        ops.append(dict(spell=spell, delim=delim + (str(i) if k > 1 else ''), dash=dash, fd=fd))
        if k > 1: ops[-1]['spell'] = spell.replace(delim, delim + str(i))
        tags = tags if t in tags else tags + t
        cmd += ' ' + fd + ('<<-' if dash else '<<') + rng.choice(['', ' ']) + ops[-1]['spell']
        x = rng.random()
        if x < 0.3: cmd += ' arg'
        elif x < 0.45: cmd += rng.choice([' $(b) c', ' `b` c', ' <(b) c', ' x$(b $(c))y z', ' "$(b)" c', ' $(b) >f'])     # a nested parser runs while the here-document is pending
    # a substitution AFTER the last operator that holds a here-document of its own (its body ends before the outer body starts:
    # whoever computes "the end of the last here-document" must not take the last one visited); \x00 stands for its newlines until the
    # operator line has been laid out
    if rng.random() < 0.15:
        cmd += rng.choice([' $(cat <<I\x00i\x00I\x00) c', ' <(cat <<I\x00i\x00I\x00)', ' "$(d <<-I\x00\ti\x00\tI\x00)"', ' x$(e <<I\x00I\x00)y z', ' `cat <<I\x00i\x00I\x00`'])
        tags += '+innerdoc'
    wrap, wt = rng.choice(WRAPS)
    tags += wt
    if k > 1: tags += '+multi'
    line = wrap % cmd
    # the bodies go after the first newline following the command line
    if '\n' in line:
        head, tail = line.split('\n', 1); tail = '\n' + tail
    else:
        head, tail = line, ''
    # a comment may end the operator line
    if rng.random() < 0.25: head += rng.choice([' # c', '\t#x <<Z', ' # `'])
    text = head + '\n'
    oppos = []
    pos = 0
    for o in ops:
        needle = ('<<-' if o['dash'] else '<<') 
        pos = head.index(needle, pos)
        oppos.append(pos); pos += len(needle)
    params = []
    for o, op in zip(ops, oppos):
        body = rng.choice(BODIES)
        body = [b for b in body if b.lstrip('\t') != o['delim']]
        bs = len(text)
        for b in body: text += b + '\n'
        dl = ('\t' if o['dash'] and rng.random() < 0.5 else '') + o['delim']
        text += dl
        be = len(text)
        text += '\n'
        params += [op, bs, be, 1 if o['dash'] else 0]
        if any(b.startswith('\t') for b in body) and not o['dash']: pass
    follow = rng.choice(FOLLOW)
    rest = tail.lstrip('\n')
    if rest:
        text += rest + ('\n' if not rest.endswith('\n') else '')
        nxt = 0
    else:
        nxt = 0
    if follow.strip():
        start = len(text) + (len(follow) - len(follow.lstrip('\n')))
        text += follow
        nxt = start if not wt else 0
    params.append(nxt)
    return text.replace('\x00', '\n'), params, tags

def run(ctx):
    tier, seed, findings = ctx['tier'], ctx['seed'], ctx['findings']
    quick = tier == 'quick'
    rng = random.Random(seed + 10)
    cases = []
    for _ in range(1500 if quick else 30000):
        text, params, tags = build(rng)
        cases.append((text, params, tags))
    if ctx.get('replay'):
        rp = json.load(open(ctx['replay'])); cases = [(rp['input'], rp['params'], rp.get('tags', ''))]
    reqs = [('parse', rng.choice([{}, {}, dict(strictmode=False)]), c[0]) for c in cases]
    classes = collections.Counter(); corr_broken = []; outs = []
    for (req, i, m, it, mt) in runner.run_all(reqs):
        classes[runner.outcome_class(i)] += 1
        if common.obs_tree(i) != common.obs_tree(m): corr_broken.append(dict(request=[req[0], req[1], req[2]], impl=i[:300], model=m[:300]))
        outs.append(i)
    items = [('C10', c[1], c[0], [o]) for c, o in zip(cases, outs)]
    violations = []; finding_hits = {}; sig_count = collections.Counter(); nontrivial = set()
    for k in range(0, len(items), 1000):
        for case, item, sigs in zip(cases[k:], items[k:k + 1000], rel_batch(items[k:k + 1000])):
            nontrivial.add(case[0])
            for sig in sigs:
                sig = sig + case[2]
                sig_count[sig] += 1
                fid = common.match_finding(findings, sig, case[0])
                if fid: finding_hits.setdefault(fid, case[0][:80])
                elif len(violations) < 25 and not any(v['signature'] == sig for v in violations):
                    violations.append(dict(property='C10', input=case[0], params=case[1], tags=case[2], signature=sig, impl_outcome=item[3][0][:2000],
                                           how='relation C10 (Lean, Spec/Eval.lean) with the pairing known by construction'))
    return dict(evaluations=len(cases), distinct_nontrivial=len(nontrivial),
                rule='commands with 1..3 here-document operators (<<, <<-, optional fd) x delimiter spellings (plain, single/double quoted, escaped) x bodies (empty, '
                     'blank lines, delimiter as substring, tabs, continuation, expansions) x following text x enclosing construct (plain, pipeline, list, subshell, '
                     'group, if, while, function, case); pairing, body span/value and the start of the following command are known by construction',
                samples=[c[0] for c in cases[:3] + cases[-2:]],
                violations=violations, finding_hits=finding_hits, corr_broken=corr_broken, classes=dict(classes),
                extra=dict(signature_counts=dict(sig_count)))
