"""C02 round trip: abstract command trees, their spellings and the AST they denote are ONE Lean
definition (Spec/Render.lean, driven by a choice sequence); the harness supplies choice sequences,
parses the rendered text with bashlex and compares with the expected tree."""
import collections, random, json, itertools
import canon, gen, runner
from propchecks import common

def cases_for(choice_lists):
    lines = ['c02\t-\t%s' % '.'.join(map(str, c)) for c in choice_lists]
    out = []
    for k in range(0, len(lines), 5000):
        for rep in runner.model_batch(lines[k:k + 5000]):
            h, exp, tags, selfc = rep.split('\t')
            text = ''.join(chr(int(x, 16)) for x in h.split('.') if x)
            out.append((text, exp, tags, selfc))
    return out

def run(ctx):
    tier, seed, findings = ctx['tier'], ctx['seed'], ctx['findings']
    quick = tier == 'quick'
    rng = random.Random(seed + 2)
    choice_lists = []
    # small trees exhaustively: every choice vector of length <= L over 0..11 (later choices default to 0)
    L = 3 if quick else 4
    for n in range(0, L + 1):
        for t in itertools.product(range(12), repeat=n): choice_lists.append(list(t))
    for _ in range(2500 if quick else 40000):
        choice_lists.append([rng.randrange(0, 997) for _ in range(rng.choice([40, 80, 160, 400, 1000, 2000]))])
    if ctx.get('replay'):
        choice_lists = [json.load(open(ctx['replay']))['choices']]
    cases = cases_for(choice_lists)
    bad_oracle = [(c, cs) for c, cs in zip(choice_lists, cases) if cs[3]]
    # (the expected tree of every case passes the C03/C04/C05/C06/C12 predicates; known finding contexts excepted)
    reqs = [('parse', {}, c[0]) for c in cases]
    classes = collections.Counter(); corr_broken = []; violations = []; finding_hits = {}; sig_count = collections.Counter()
    nontrivial = set(); oracle_selfcheck_failures = collections.Counter()
    for ch, (text, exp, tags, selfc), (req, i, m, it, mt) in zip(choice_lists, cases, runner.run_all(reqs)):
        classes[runner.outcome_class(i)] += 1
        if common.obs_tree(i) != common.obs_tree(m): corr_broken.append(dict(request=[req[0], req[1], req[2]], impl=i[:300], model=m[:300]))
        nontrivial.add(text)
        for sc in filter(None, selfc.split(',')): oracle_selfcheck_failures[sc] += 1
        if i != exp and '+arithmetic-lookalike' not in tags:      # '$((' is arithmetic expansion for the shell as well
            sig = ('rejected' if i.startswith('EXN PE') else 'unsupported' if i == 'EXN NI' else 'foreign' if i.startswith('EXN') else 'tree-differs') + tags
            sig_count[sig] += 1
            fid = common.match_finding(findings, sig, text)
            if fid: finding_hits.setdefault(fid, text[:80])
            elif len(violations) < 25 and not any(v['signature'] == sig for v in violations):
                k = 0
                while k < min(len(i), len(exp)) and i[k] == exp[k]: k += 1
                violations.append(dict(property='C02', input=text, choices=ch, signature=sig, impl_outcome=i[:3000], expected=exp[:3000],
                                       first_difference=dict(at=k, got=i[max(0, k - 150):k + 250], expected=exp[max(0, k - 150):k + 250]),
                                       how='bashlex.parse(rendered) versus the tree Spec.roundTripCase (Lean) says this spelling denotes'))
    return dict(evaluations=len(cases), distinct_nontrivial=len(nontrivial),
                rule='choice sequences: every vector of length <= %d over 0..11 (small trees, exhaustive) + %d seeded random vectors of 40..2000 choices; each is turned by '
                     'Spec.roundTripCase (Lean) into an abstract tree (simple commands with assignments/redirections, pipelines with !, and/or/;/& lists, subshells, '
                     'groups, if/elif/else, while/until, for, case, functions; words mixing quoting styles, parameters, tildes, nested $( ) <( ) >( )), a spelling '
                     '(blank widths, tabs, ; versus newline, continuations and comments between tokens, reserved words as arguments) and the expected AST with spans' % (L, len(choice_lists)),
                samples=[c[0] for c in cases[:2] + cases[-3:]],
                violations=violations, finding_hits=finding_hits, corr_broken=corr_broken, classes=dict(classes),
                extra=dict(signature_counts=dict(sig_count), oracle_selfcheck=dict(oracle_selfcheck_failures)))
