"""C19: concurrent parses in several threads do not interfere.  Per-thread outcomes under a
deterministic line-level scheduler (sys.settrace in every thread, explicit hand-over of a run token,
bounded number of preemptions) and under free-running stress with a minimal switch interval, each
compared with the outcome of the same call run alone."""
import collections, random, json, threading, sys, os, time
import canon, gen, runner
from propchecks import common

class Sched(object):
    """cooperative line-level scheduler: exactly one thread runs; at every `line` event inside the
    bashlex package the running thread consults the schedule (a list of run lengths) and may hand over"""
    def __init__(self, nthreads, runlens, pkgdir):
        self.cv = threading.Condition()
        self.current = 0
        self.alive = [True] * nthreads
        self.runlens = list(runlens); self.left = self.runlens.pop(0) if self.runlens else 10**9
        self.pkgdir = pkgdir
        self.switches = 0
    def next_alive(self, me):
        n = len(self.alive)
        for k in range(1, n + 1):
            j = (me + k) % n
            if self.alive[j]: return j
        return None
    def wait_turn(self, me):
        with self.cv:
            while self.current != me:
                self.cv.wait(timeout=10)
    def tick(self, me):
        self.left -= 1
        if self.left <= 0:
            self.left = self.runlens.pop(0) if self.runlens else 10**9
            nxt = self.next_alive(me)
            if nxt is not None and nxt != me:
                with self.cv:
                    self.switches += 1
                    self.current = nxt
                    self.cv.notify_all()
                    while self.current != me:
                        self.cv.wait(timeout=10)
    def done(self, me):
        with self.cv:
            self.alive[me] = False
            nxt = self.next_alive(me)
            if nxt is not None:
                self.current = nxt
            self.cv.notify_all()
    def tracer(self, me):
        pkg = self.pkgdir
        def local(frame, event, arg):
            if event == 'line': self.tick(me)
            return local
        def glob(frame, event, arg):
            if frame.f_code.co_filename.startswith(pkg): return local
            return None
        return glob

def run_scheduled(bl, calls_per_thread, runlens):
    pkgdir = os.path.dirname(bl.__file__)
    n = len(calls_per_thread)
    sched = Sched(n, runlens, pkgdir)
    results = [[] for _ in range(n)]
    def worker(me):
        sched.wait_turn(me)
        sys.settrace(sched.tracer(me))
        try:
            for p in calls_per_thread[me]:
                results[me].append(canon.norm_outcome(canon_run_nosignal(bl, p)))
        finally:
            sys.settrace(None)
            sched.done(me)
    ts = [threading.Thread(target=worker, args=(i,)) for i in range(n)]
    for t in ts: t.start()
    for t in ts: t.join(timeout=120)
    return results, sched.switches

def flagged_ticks(bl, call, flagged):
    """run `call` alone under a line tracer: (number of line events inside the package, the tick numbers that fall into
    the dynamic extent of a statement at a flagged (file, line): from the moment the statement starts until its frame moves on)"""
    pkg = os.path.dirname(bl.__file__)
    ticks = [0]; inext = []; active = {}
    def local(frame, event, arg):
        if event == 'line':
            ticks[0] += 1
            fid = id(frame)
            if fid in active: del active[fid]
            if (frame.f_code.co_filename, frame.f_lineno) in flagged: active[fid] = True
            if active: inext.append(ticks[0])
        elif event == 'return':
            active.pop(id(frame), None)
        return local
    def glob(frame, event, arg):
        return local if frame.f_code.co_filename.startswith(pkg) else None
    sys.settrace(glob)
    try: canon_run_nosignal(bl, call)
    finally: sys.settrace(None)
    return ticks[0], inext

def canon_run_nosignal(bl, p):
    """canon.run without SIGALRM (signals only work in the main thread)"""
    entry, opts, s = p
    node_cls = bl.ast.node
    pkgdir = os.path.dirname(bl.__file__)
    try:
        if entry == 'parse': return 'OK ' + canon.canon(bl.parse(s, **opts), node_cls)
        if entry == 'single': return 'ONE ' + canon.canon(bl.parsesingle(s, **opts), node_cls)
        return 'STRS ' + canon.canon(list(bl.split(s)), node_cls)
    except bl.errors.ParsingError as e:
        return 'EXN PE|%s|%s|%s' % (canon.qstr(e.message), canon.qstr(e.s) if isinstance(e.s, str) else '<%s>' % type(e.s).__name__, e.position)
    except NotImplementedError:
        return 'EXN NI'
    except RecursionError:
        return 'EXN F|RecursionError|?'
    except Exception as e:
        return 'EXN F|%s|%s' % (type(e).__name__, canon.site_of(e, pkgdir))

def run(ctx):
    tier, seed, findings = ctx['tier'], ctx['seed'], ctx['findings']
    quick = tier == 'quick'
    rng = random.Random(seed + 19)
    bl = runner.get_bashlex()
    pool_inputs = ['a b', '(', 'a &&', 'a $(b $(c)) d', 'a <<E\nx\nE\n', 'a )', 'a "b', 'if a; then b; fi', 'a\nb (', 'a <<E', 'select x in a; do b; done',
                   'case x in a) b;; esac', 'a | b && c', "a 'b c' $d", 'a `b`', 'xyzq%+,@'] + common.random_scripts(seed, 12 if quick else 100, mutate=1)
    pool = [('parse', {}, s) for s in pool_inputs if all(ord(c) < 128 for c in s)] + [('split', {}, 'a "b c" d'), ('single', dict(convertpos=True), 'a b\nc')]
    # "run alone" = the same call in a fresh interpreter (one process per pool call)
    import multiprocessing as mp
    from propchecks.c18 import fresh_outcome
    with mp.Pool(16) as mpool:
        solo = dict(zip([json.dumps(p, sort_keys=True) for p in pool], mpool.map(fresh_outcome, [list(p) for p in pool])))
    victims = [('parse', {}, 'a <<E | b\nx\nE\nc d'), ('parse', {}, 'a; b\nc $(d) e\n'), ('parse', {}, 'a $(b <<E\nx\nE\n) c\nd'), ('parse', dict(convertpos=True), 'for a; do b; done >x; c'),
               ('single', {}, 'a "$(b)" `c`'), ('split', {}, 'a "b c" $(d)'),
               ] + ([] if quick else [
               # deep nests (thorough tier: tracing them is slow): whatever the interpreter's limits make of them alone, they must make of them under concurrency
               ('parse', {}, 'echo ' + '$(echo ' * 60 + 'x' + ')' * 60), ('parse', {}, 'echo ' + '$(echo ' * 200 + 'x' + ')' * 200)])
    others = [('parse', {}, 'cat <<EOF\nhello\nworld\nEOF\n'), ('parse', {}, 'a\nb'), ('parse', {}, 'x $(y `z`) "w" <(v)'), ('parse', {}, 'if a; then b; fi )')]
    extra_pool = victims + others
    with mp.Pool(16) as mpool:
        solo.update(zip([json.dumps(p, sort_keys=True) for p in extra_pool], mpool.map(fresh_outcome, [list(p) for p in extra_pool])))
    # the model agrees with the solo outcomes (ties the interleaving theorem to these calls)
    corr_broken = []
    for p, rep in zip(pool, runner.model_batch([runner.req_line(*p) for p in pool])):
        m = canon.norm_outcome(rep.rpartition(' ## ')[0])
        if m != solo[json.dumps(p, sort_keys=True)]: corr_broken.append(dict(request=list(p), impl=solo[json.dumps(p, sort_keys=True)][:300], model=m[:300]))
    violations = []; sig_count = collections.Counter(); evaluations = 0; nontrivial = set(); total_switches = 0
    def note(sig, detail):
        sig_count[sig] += 1
        if len(violations) < 25 and not any(v['signature'] == sig for v in violations):
            violations.append(dict(property='C19', signature=sig, **detail))
    nsched = 60 if quick else 1500
    old_interval = sys.getswitchinterval()
    for k in range(nsched):
        nthreads = rng.choice([2, 2, 2, 3, 4])
        calls = [[rng.choice(pool) for _ in range(rng.randint(1, 3))] for _ in range(nthreads)]
        # bounded preemptions: a few hand-overs at random line counts (small counts place the switch between adjacent statements)
        runlens = [rng.choice([1, 2, 3, 5, 8, 13, 21, 40, 80, 200, 500]) for _ in range(rng.randint(1, 12))]
        if ctx.get('replay'):
            rp = json.load(open(ctx['replay'])); calls = [[tuple(c) for c in t] for t in rp['calls']]; runlens = rp['runlens']
        results, sw = run_scheduled(bl, calls, runlens)
        total_switches += sw
        for t, (cs, rs) in enumerate(zip(calls, results)):
            for c, r in zip(cs, rs):
                evaluations += 1; nontrivial.add((json.dumps(c, sort_keys=True), tuple(runlens)))
                if r != solo[json.dumps(c, sort_keys=True)]:
                    note('outcome-depends-on-interleaving', dict(calls=[[list(c) for c in t] for t in calls], runlens=runlens, thread=t, call=list(c),
                                                                 got=r[:400], alone=solo[json.dumps(c, sort_keys=True)][:400],
                                                                 how='deterministic line-level scheduler (sys.settrace, run-token hand-over)'))
            if len(rs) != len(cs): note('thread-did-not-finish', dict(calls=[[list(c) for c in t] for t in calls], runlens=runlens, thread=t))
        if ctx.get('replay'): break
    # ---- one preemption, placed systematically: the victim runs k line events, the other call runs to completion,
    # the victim finishes.  k ranges over the line events inside the dynamic extent of the statements the translator
    # flags as touching state that outlives a call (write sites, shared containers) - the only places where another
    # thread can be observed - and over a spread of all other line events.
    pkgdir = os.path.dirname(bl.__file__)
    sites = ((ctx['prep'].extract.get('Effects') or {}).get('shared_site_lines') or []) if ctx.get('prep') is not None else []
    flagged = set((os.path.join(pkgdir, m.split('.')[-1] + '.py'), int(l)) for m, l, _ in sites)
    budget = 240 if quick else 6000
    per_pair = max(6, budget // (len(victims) * len(others)))
    targeted = 0; untargeted = 0
    if not ctx.get('replay'):
        for v in victims:
            n, inext = flagged_ticks(bl, v, flagged)
            for o in others:
                ks = set(rng.sample(inext, min(len(inext), per_pair * 2 // 3))) if inext else set()
                targeted += len(ks)
                rest = [k for k in range(1, n + 1) if k not in ks]
                extra = rng.sample(rest, min(len(rest), per_pair - len(ks))) if rest else []
                untargeted += len(extra)
                for k in sorted(ks | set(extra)):
                    calls = [[v], [o]]; runlens = [k, 10 ** 9]
                    results, sw = run_scheduled(bl, calls, runlens)
                    total_switches += sw
                    for t, (cs, rs) in enumerate(zip(calls, results)):
                        for c, r in zip(cs, rs):
                            evaluations += 1; nontrivial.add((json.dumps(c, sort_keys=True), k))
                            if r != solo[json.dumps(c, sort_keys=True)]:
                                note('outcome-depends-on-interleaving', dict(calls=[[list(c) for c in t] for t in calls], runlens=runlens, thread=t, call=list(c),
                                                                             got=r[:400], alone=solo[json.dumps(c, sort_keys=True)][:400],
                                                                             how='one preemption after %d line events of the first call (targeted at statements touching shared state), the other call runs to completion' % k))
    # ---- free-running stress ----
    sys.setswitchinterval(1e-6)
    try:
        stress_rounds = 3 if quick else 40
        for r in range(stress_rounds):
            nthreads = 4
            calls = [[rng.choice(pool) for _ in range(25)] for _ in range(nthreads)]
            results = [[] for _ in range(nthreads)]
            def w(i):
                for c in calls[i]: results[i].append(canon.norm_outcome(canon_run_nosignal(bl, c)))
            ts = [threading.Thread(target=w, args=(i,)) for i in range(nthreads)]
            for t in ts: t.start()
            for t in ts: t.join(timeout=300)
            for t in range(nthreads):
                for c, rr in zip(calls[t], results[t]):
                    evaluations += 1
                    if rr != solo[json.dumps(c, sort_keys=True)]:
                        note('outcome-differs-under-stress', dict(call=list(c), got=rr[:400], alone=solo[json.dumps(c, sort_keys=True)][:400], how='4 free-running threads, switch interval 1e-6'))
    finally:
        sys.setswitchinterval(old_interval)
    return dict(evaluations=evaluations, distinct_nontrivial=len(nontrivial),
                rule='%d schedules: 2..4 threads x 1..3 calls from a pool of %d (accepting and failing inputs, all entry points) under a deterministic line-level '
                     'scheduler (every thread traced with sys.settrace, one run token, hand-over after pseudo-random numbers of source lines inside the bashlex '
                     'package: 1..12 preemptions per schedule, %d hand-overs in total); plus free-running stress (4 threads, switch interval 1e-6); every per-thread '
                     'outcome compared with the same call run alone' % (nsched, len(pool), total_switches),
                samples=[[list(p) for p in pool[:3]]],
                violations=violations, finding_hits={}, corr_broken=corr_broken, classes={},
                extra=dict(targeted_preemptions=targeted, untargeted_preemptions=untargeted, flagged_shared_sites=len(flagged), signature_counts=dict(sig_count), handovers=total_switches, schedules=nsched))
