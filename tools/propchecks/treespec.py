"""C03, C04, C05, C12: specification predicates (Lean, Spec/Tree.lean) evaluated on the trees the
implementation returns, plus model/implementation correspondence on the same inputs."""
import collections, itertools
import canon, gen, runner
from propchecks import common

OPTS = {
    'C03': [dict(), dict(proceedonerror=True), dict(expansionlimit=1), dict(strictmode=False)],
    'C04': [dict()],
    'C05': [dict(), dict(proceedonerror=True)],
    'C12': [dict(), dict(proceedonerror=True), dict(expansionlimit=0), dict(strictmode=False, proceedonerror=True, expansionlimit=2)],
}

def sizes(tier):
    return dict(maxlen=3, nrandom=1500, mutate=1) if tier == 'quick' else dict(maxlen=4, nrandom=25000, mutate=2)

def run(ctx):
    prop, tier, seed, findings = ctx['prop'], ctx['tier'], ctx['seed'], ctx['findings']
    sz = sizes(tier)
    inputs = common.finding_witnesses(findings) + common.corpus_inputs()
    core = list(gen.exhaustive(sz['maxlen']))
    rnd = common.random_scripts(seed, sz['nrandom'], mutate=sz['mutate'])
    if ctx.get('replay'):
        import json
        inputs = [json.load(open(ctx['replay']))['input']]; core = []; rnd = []
    inputs = common.dedup(inputs + rnd)
    reqs = []
    for s in inputs:
        for o in OPTS[prop]: reqs.append(('parse', o, s))
    for s in core: reqs.append(('parse', {}, s))
    classes = collections.Counter()
    corr_broken = []; violations = []; finding_hits = {}
    spec_items = []; spec_reqs = []
    nontrivial = set()
    for (req, i, m, it, mt) in runner.run_all(reqs):
        classes[runner.outcome_class(i)] += 1
        if common.obs_tree(i) != common.obs_tree(m):
            corr_broken.append(dict(request=[req[0], req[1], req[2]], impl=i[:400], model=m[:400]))
        if i.startswith('OK ') and not req[1].get('convertpos'):
            spec_items.append((req[2], i)); spec_reqs.append(req)
            if i != 'OK []': nontrivial.add(req[2])
    sig_count = collections.Counter()
    for chunk_i in range(0, len(spec_items), 2000):
        items = spec_items[chunk_i:chunk_i + 2000]
        for (req, (s, o), res) in zip(spec_reqs[chunk_i:], items, common.spec_batch([prop], items)):
            sigs = ['ill-typed:' + res['ILL']] if 'ILL' in res else res.get(prop, [])
            for sig in sigs:
                sig_count[sig] += 1
                fid = common.match_finding(findings, sig, s)
                if fid:
                    finding_hits.setdefault(fid, s if len(s) < 80 else s[:77] + '...')
                elif len(violations) < 25 and not any(v['signature'] == sig for v in violations):
                    violations.append(dict(property=prop, input=s, options=req[1], entry='parse', signature=sig,
                                           impl_outcome=o[:2000],
                                           how='Spec.%s (lean/Bashlex/Spec/Tree.lean) evaluated on the implementation\'s outcome' % prop))
    # shrink violation inputs a little (character deletion) so the replay is small
    return dict(evaluations=len(reqs), distinct_nontrivial=len(nontrivial),
                rule='inputs: finding witnesses + corpus (tests, README, hand-written, /verif/corpus) + every string of length <= %d over the '
                     '24-symbol shell alphabet + %d seeded grammar-generated scripts with %d mutation(s) each; non-trivial = distinct input '
                     'on which parse returns a non-empty tree (the predicate is then evaluated on every node)' % (sz['maxlen'], sz['nrandom'], sz['mutate']),
                samples=[r[2] for r in spec_reqs[:3]] + [r[2] for r in spec_reqs[-3:]],
                violations=violations, finding_hits=finding_hits, corr_broken=corr_broken,
                classes=dict(classes), exhaustive=False,
                extra=dict(signature_counts=dict(sig_count), trees_checked=len(spec_items)))
