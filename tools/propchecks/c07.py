"""C07: substitutions are parsed compositionally, and only where the shell expands."""
import collections, random, json
import canon, gen, runner
from propchecks import common
from propchecks.relprops import rel_batch, accepted

def strip_cont(a):
    """`a` without its line continuations (a backslash-newline whose backslash is not itself escaped and
    not inside single quotes), and whether there was one"""
    out = []; i = 0; sq = False; had = False
    while i < len(a):
        c = a[i]
        if sq:
            if c == "'": sq = False
            out.append(c); i += 1
        elif c == '#' and (i == 0 or a[i - 1] in ' \t\n;&|()'):
            # a comment runs to its newline; a backslash at its end continues nothing
            j = a.find('\n', i)
            j = len(a) if j < 0 else j
            out.append(a[i:j]); i = j
        elif c == '\\' and i + 1 < len(a):
            if a[i + 1] == '\n': had = True
            else: out.append(a[i:i + 2])
            i += 2
        else:
            if c == "'": sq = True
            out.append(c); i += 1
    return ''.join(out), had

def run(ctx):
    tier, seed, findings = ctx['tier'], ctx['seed'], ctx['findings']
    quick = tier == 'quick'
    rng = random.Random(seed + 7)
    bl = runner.get_bashlex()
    g = gen.Gen(random.Random(seed + 70), heredocs=False)
    pool = ['a', 'a b', 'a | b', 'a && b', 'a; b', 'a;', 'a &', 'a || b && c', '! a', '(a)', '{ a; }', 'if a; then b; fi', 'for i in 1; do a; done',
            'case x in a) b;; esac', 'a >b', 'a "b c"', "a 'b'", 'a $(b)', 'a # c', 'a\nb', 'a \\\n b', 'a ', ' a', 'f() { a; }', 'a=1 b', 'while a; do b; done',
            # comments inside the body: whatever a comment contains, it ends at its newline and delimits nothing
            'a #\n#)\n', "a # x\n# don't\n", 'a #c\n#(\n', 'a # `\n# "\n', 'a # )', 'a #c\n #)\n', 'a; b # (\n#)\n', "a # '\n", 'a #\n\n#)\n']
    for _ in range(250 if quick else 4000):
        s = g.script(nlines=1).rstrip('\n')
        if rng.random() < 0.1: s = s + '\n' + g.script(nlines=1).rstrip('\n')
        pool.append(s)
    # a comment on the last line would swallow the closing parenthesis; '$((' is arithmetic expansion
    pool = [s for s in common.dedup(pool) if accepted(bl, s) and '#' not in s.split('\n')[-1]]      # (a comment on the LAST line would swallow the closer)
    pool = [(' ' + s) if s.startswith('(') else s for s in pool]
    cases = []
    def emb(pre, opener, a, closer, post):
        s = pre + opener + a + closer + post
        return s, len(pre), len(pre) + len(opener)
    for a in pool:
        ctxs = [('', '$(', ')', ''), ('x', '$(', ')', 'y'), ('c "', '$(', ')', '"'), ('v=', '$(', ')', ''), ('c >', '$(', ')', ''), ('c ', '<(', ')', ''),
                ('c ', '>(', ')', ' d'), ('c pre', '<(', ')', ''), ('c --x=', '>(', ')', 'y'), ('v=', '<(', ')', ''), ('c a.b', '$(', ')', '/d'), ('c $(d ', '$(', ')', ')'), ('c "$(d "', '$(', ')', '")"'), ('e\nc ', '$(', ')', ''), ('c $(d $(e ', '$(', ')', '))')]
        # next to / after a ${...} whose operand holds a bare '{': the parameter expansion ends at the FIRST '}' (only '${' nests)
        ctxs += [('c ${a:-{}', '$(', ')', '}'), ('c "${a:-{}', '$(', ')', '}"'), ('c ${a/{/x}', '<(', ')', '}'), ('c ${v}', '$(', ')', '${w}'), ('c ${v:-{x}', '$(', ')', '')]
        if '`' not in a and '\\' not in a: ctxs += [('c ', '`', '`', ''), ('c "', '`', '`', '"')]
        if quick: ctxs = rng.sample(ctxs, 5)
        for pre, op, cl, post in ctxs:
            s, oa, ba = emb(pre, op, a, cl, post)
            cases.append(('C07', [oa, ba], s, [('parse', {}, a), ('parse', {}, s)], a))
    # "at any nesting depth": deep nests (the model covers 64 levels, the interpreter's recursion limit is far above 60)
    for a in ['a', 'a b | c', 'if a; then b; fi']:
        for k in ([12, 49, 58] if quick else [5, 12, 25, 40, 48, 49, 50, 52, 58, 62]):
            for (o, c) in [('$(', ')'), ('<(', ')')]:
                s, oa, ba = emb('b $(' * (k - 1) + 'b ', o, a, c, ')' * (k - 1))
                cases.append(('C07', [oa, ba], s, [('parse', {}, a), ('parse', {}, s)], a))
    prot = []
    for body in ['$(a)', '$v', '${v}', '`a`', '~', '~u', '$1', '<(a)', '$(a $(b))']:
        esc = ''.join('\\' + c for c in body)
        for tmpl in ["'%s'", "x'%s'", "'%s'y", "x'%s'y", "c '%s'", "c x'%s'"]:
            prot.append(tmpl % body)
        for tmpl in ['%s', 'x%s', 'c %s', 'c x%s y']:
            prot.append(tmpl % esc)
        prot.append('c "%s"' % ''.join(('\\' + c) if c in '$`' else c for c in body).replace('~', "'~'"))
    for s in prot:
        cases.append(('C07prot', [], s, [('parse', {}, s)], s))
    if ctx.get('replay'):
        rp = json.load(open(ctx['replay'])); cases = [(rp['rel'], rp['params'], rp['input'], [tuple(r) for r in rp['requests']], rp.get('enclosed', ''))]
    uniq = {}
    for c in cases:
        for r in c[3]: uniq.setdefault((r[0], json.dumps(r[1], sort_keys=True), r[2]), r)
    out = {}; classes = collections.Counter(); corr_broken = []
    for (req, i, m, it, mt) in runner.run_all(list(uniq.values())):
        out[(req[0], json.dumps(req[1], sort_keys=True), req[2])] = i
        classes[runner.outcome_class(i)] += 1
        if common.obs_tree(i) != common.obs_tree(m): corr_broken.append(dict(request=[req[0], req[1], req[2]], impl=i[:300], model=m[:300]))
    items = [(c[0], c[1], c[2], [out[(r[0], json.dumps(r[1], sort_keys=True), r[2])] for r in c[3]]) for c in cases]
    violations = []; finding_hits = {}; sig_count = collections.Counter(); nontrivial = set()
    for k in range(0, len(items), 1000):
        for case, item, sigs in zip(cases[k:], items[k:k + 1000], rel_batch(items[k:k + 1000])):
            nontrivial.add(case[2])
            a = case[4]
            for sig in sigs:
                tags = ''
                if case[0] == 'C07':
                    first = item[3][0]
                    stripped, had_cont = strip_cont(a)
                    if '\n' in stripped: tags += '+multiline'
                    if had_cont: tags += '+cont'
                    if a.endswith(' ') or a.endswith('\t'): tags += '+trailing-blank'
                    if first.startswith('OK [{kind="list"') or a.rstrip().endswith(('&', ';')): tags += '+list'
                    if '`' in case[2][case[1][0]:case[1][0] + 1]: tags += '+backquote'
                    if a.lstrip().startswith('#') or ' #' in a: tags += '+comment'
                else:
                    tags += '+partly-quoted' if not (case[2].startswith("'") and case[2].endswith("'")) and "'" in case[2] else ''
                    tags += '+backslash' if '\\' in case[2] else ''
                sig = '%s:%s%s' % (case[0], sig, tags)
                sig_count[sig] += 1
                fid = common.match_finding(findings, sig, case[2])
                if fid: finding_hits.setdefault(fid, case[2][:80])
                elif len(violations) < 25 and not any(v['signature'] == sig for v in violations):
                    violations.append(dict(property='C07', rel=case[0], params=case[1], input=case[2], enclosed=a, requests=[list(r) for r in case[3]],
                                           impl_outcomes=[o[:1500] for o in item[3]], signature=sig,
                                           how='relation %s (Lean, Spec/Eval.lean) on the implementation\'s outcomes' % case[0]))
    return dict(evaluations=len(cases), distinct_nontrivial=len(nontrivial),
                rule='(a) command texts A accepted on their own (hand-written shapes + seeded generated one- and two-line commands) x embedding contexts (bare, prefixed/'
                     'suffixed word, double-quoted, assignment value, redirect target, <( ), >( ), backquotes, nested 2 and 3 levels, second line): the substitution '
                     'node opened at the known offset must hold parse(A) shifted; (b) expansions under single quotes / backslashes in six word shapes must yield '
                     'no substitution, parameter or tilde node',
                samples=[[c[0], c[2]] for c in cases[:3] + cases[-3:]],
                violations=violations, finding_hits=finding_hits, corr_broken=corr_broken, classes=dict(classes),
                extra=dict(signature_counts=dict(sig_count)))
