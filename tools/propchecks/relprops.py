"""C13, C14, C16, C17: relational properties.  The relation is a Lean definition (Spec/Rel.lean,
Spec/Eval.lean `relEval`) evaluated by the driver on the implementation's outcomes; every request
is also run through the model (correspondence)."""
import re
import collections, random, json
import canon, gen, runner
from propchecks import common

def rel_batch(items):
    """items: list of (prop, params, src, [outcomes]) -> list of signature lists"""
    lines = ['rel\t%s:%s\t%s\t%s' % (p, ','.join(map(str, params)), canon.enc_input(src) or '-', '\t'.join(outs))
             for p, params, src, outs in items]
    return [[x for x in rep.split(',') if x] for rep in runner.model_batch(lines)]

def leaf_spans(node, bl):
    """leaf spans of an implementation tree (operators, reserved words, pipes, words, redirects, bodies);
    third component: the leaf is (or holds) a here-document body"""
    out = []
    def go(n):
        k = n.kind
        if k in ('operator', 'reservedword', 'pipe', 'word', 'assignment'):
            out.append(n.pos + ('nl' if (k == 'operator' and n.op == '\n') else False,))
        elif k == 'redirect':
            out.append(n.pos + (n.heredoc is not None and n.heredoc.pos[1] <= n.pos[1],))
            if n.heredoc is not None: out.append(n.heredoc.pos + (True,))
        else:
            for attr in ('parts', 'list', 'redirects'):
                for c in getattr(n, attr, None) or []:
                    if isinstance(c, bl.ast.node): go(c)
    go(node)
    return out

def accepted(bl, s, **opts):
    try:
        r = bl.parse(s, **opts)
        return r if r else None
    except Exception:
        return None

def run(ctx):
    prop, tier, seed, findings = ctx['prop'], ctx['tier'], ctx['seed'], ctx['findings']
    quick = tier == 'quick'
    rng = random.Random(seed * 7919 + 13)
    bl = runner.get_bashlex()
    cases = []     # (relprop, params, src, [requests])
    if prop == 'C16':
        scripts = common.dedup(common.finding_witnesses(findings) + [s for s in common.corpus_inputs() if '$(' in s or '`' in s or '<(' in s] +
                               common.random_scripts(seed, 600 if quick else 8000, maxdepth=4, heredocs=False))
        for s in scripts:
            for k in (0, 1, 2, 3):
                cases.append(('C16', [k], s, [('parse', {}, s), ('parse', dict(expansionlimit=k), s)]))
        # the limit under the other options: unsupported constructs (arithmetic, coproc, select, time) in words and substitutions with proceedonerror
        extra = ['$((1))', 'a $((1 + $(b)))', 'a $(( $(d $(e)) + 1 )) $(f)', 'a $(b)\nc $(( $(d $(e)) + 1 ))', 'a $[1+2] $(b $(c))', 'a $(b $((1)))', 'coproc a $(b $(c))', 'time a $(b `c`)',
                 'select x in $(a $(b)); do c; done', 'a $(coproc b $(c))', 'a <(time b $(c))', 'a "$(( $(b) ))" `c $(d)`'] + \
                common.random_scripts(seed + 1, 150 if quick else 2500, maxdepth=3, heredocs=False, unsupported=0.25)
        for s in common.dedup(extra):
            for o in (dict(proceedonerror=True), dict(proceedonerror=True, strictmode=False)):
                for k in (0, 1, 2):
                    cases.append(('C16', [k], s, [('parse', o, s), ('parse', dict(o, expansionlimit=k), s)]))
    elif prop == 'C17':
        scripts = common.dedup(common.finding_witnesses(findings) + common.corpus_inputs() + list(gen.exhaustive(2 if quick else 3)) +
                               common.random_scripts(seed, 500 if quick else 8000, mutate=1, unsupported=0.08))
        scripts += ['coproc (a)>f', 'coproc { a; } > f', 'coproc x (a) >f 2>&1', 'a\ncoproc { b; } >f\nc', 'coproc while a; do b; done <f', 'b; coproc x { a; } 2>f | c',
                    'select x in a b; do c; done >f', 'select x; do c; done <f &', 'time a >f', 'time -p { a; } >f', 'for ((;;)); do a; done >f', 'a | (( 1 )) >f', '[[ a ]] >f && b']
        # a missing here-document that is NOT at the end of the input (inside a substitution, in the middle of a line)
        scripts += ['a `b <<E` c', 'a `b <<E`\nc\n', 'a "`b <<-E`" c', 'a $(b <<E) c', 'a <(b <<E) c\nd', 'x=`a <<E`; b', 'a `b <<E\n` c', 'if `a <<E`; then b; fi']
        for t in [x.rstrip('\n') for x in scripts[-400:] if '`' not in x and '\n' not in x.rstrip('\n') and '<<' not in x and '#' not in x and "'" not in x and '"' not in x and '\\' not in x][:60 if quick else 400]:
            scripts.append('a `' + t + ' <<NEVER` c'); scripts.append('a $(' + t + ' <<NEVER) c')
        for s in scripts:
            cases.append(('C17single', [], s, [('parse', {}, s), ('single', {}, s)]))
            cases.append(('C17single', [], s, [('parse', dict(proceedonerror=True, strictmode=False), s), ('single', dict(proceedonerror=True, strictmode=False), s)]))
            cases.append(('C17convert', [], s, [('parse', {}, s), ('parse', dict(convertpos=True), s)]))
            cases.append(('C17convert', [], s, [('single', dict(proceedonerror=True), s), ('single', dict(proceedonerror=True, convertpos=True), s)]))
            cases.append(('C17convert', [], s, [('parse', dict(expansionlimit=1), s), ('parse', dict(expansionlimit=1, convertpos=True), s)]))
            cases.append(('C17strict', [], s, [('parse', {}, s), ('parse', dict(strictmode=False), s)]))
            cases.append(('C17strict', [], s, [('parse', dict(proceedonerror=True), s), ('parse', dict(proceedonerror=True, strictmode=False), s)]))
            cases.append(('C17proceed', [], s, [('parse', {}, s), ('parse', dict(proceedonerror=True), s)]))
            cases.append(('C17proceed', [], s, [('single', dict(strictmode=False), s), ('single', dict(strictmode=False, proceedonerror=True), s)]))
    elif prop == 'C13':
        g = gen.Gen(random.Random(seed + 5))
        pool = []
        for _ in range(400 if quick else 4000):
            s = g.script(nlines=1).rstrip('\n')
            if accepted(bl, s): pool.append(s)
        pool += [s for s in ['a <<E\nx\nE', 'a &', 'a;', 'a # c', 'a <<E <<F\n1\nE\n2\nF', 'f() { a; }', 'case x in a) b;; esac', 'a $(b)',
                             'if a; then b; fi', 'for i in 1 2; do a; done', 'a | b', '! a', 'a && b', '{ a; }', '(a)', 'x=1', 'a >b 2>&1']
                 if accepted(bl, s)]
        # (a comment runs to its newline whatever it contains: a backslash at its end is no continuation)
        # carriage returns where they are ordinary characters: inside quotes, comments, here-document bodies
        pool += [s for s in ['echo "x\r\ny"', "a 'b\r\nc'", 'a # c\r', 'a <<E\nx\r\nE', 'a "\r"'] if accepted(bl, s)]
        seps = ['\n', '\n\n', ' \n', '\n# c\n', '\n \n\t', '\n#\n\n', ' # x\n', ' #\\\n', '\n# c \\\n', ' # `x $(\\\n', '\n#\\\\\n', '\n# c\r\n', ' #\r\n', '\n#\r\n\n']
        for _ in range(1200 if quick else 20000):
            a, b = rng.choice(pool), rng.choice(pool)
            sep = rng.choice(seps)
            # a here-document delimiter line must be followed by its newline directly
            if '<<' in a.replace('<<<', '') and not sep.startswith('\n'): sep = '\n' + sep
            o = rng.choice([{}, {}, dict(expansionlimit=1), dict(proceedonerror=True), dict(strictmode=False)])
            cases.append(('C13', [len(a + sep)], a + sep + b, [('parse', o, a), ('parse', o, b), ('parse', o, a + sep + b)]))
            if rng.random() < 0.2:
                c = rng.choice(pool); sep2 = rng.choice(seps)
                if '<<' in b.replace('<<<', '') and not sep2.startswith('\n'): sep2 = '\n' + sep2
                cases.append(('C13', [len(a + sep + b + sep2)], a + sep + b + sep2 + c,
                              [('parse', o, a + sep + b), ('parse', o, c), ('parse', o, a + sep + b + sep2 + c)]))
    elif prop == 'C14':
        scripts = common.dedup([s for s in common.corpus_inputs()] + common.random_scripts(seed, 300 if quick else 5000, heredocs=True))
        for s in scripts:
            r = accepted(bl, s)
            if not r: continue
            spans = sorted(sp for part in r for sp in leaf_spans(part, bl))
            edits = [(0, '\n'), (0, ' '), (0, '\n \n'), (len(s), '\n'), (len(s), '\n\n')] if not s.startswith('#') else []
            prev_end = None
            prev_body = False
            for (a, b, body) in spans:
                if body == 'nl':
                    # a newline that is an operator node of its own: a comment may be put right before it
                    if prev_end is not None and not prev_body and s[a:a + 1] == '\n': edits.append((a, ' # c')); edits.append((a, '\t#x;y')); edits.append((a, ' #c \\'))
                    body = False
                if prev_end is not None and a > prev_end and not prev_body and not body:
                    gap = s[prev_end:a]
                    if all(c in ' \t' for c in gap) or gap.lstrip(' \t').startswith('\n') or gap.lstrip(' \t').startswith('\\\n'):
                        edits.append((prev_end, ' ')); edits.append((prev_end, '  \t'))
                        if gap[:1] in ' \t': edits.append((prev_end, ' \\\n'))
                        # one more continuation right next to an existing one
                        if '\\\n' in gap and gap[:1] in ' \t': edits.append((prev_end + gap.index('\\\n'), '\\\n'))
                    if gap.lstrip(' \t').startswith('\n'):
                        edits.append((prev_end, ' # c'))
                        # a comment that ends in a backslash: no continuation inside a comment, the next line is untouched
                        edits.append((prev_end, ' # c\\')); edits.append((prev_end, '\t#\\\\'))
                prev_end = max(prev_end or 0, b); prev_body = body
            # layout at the end of a line that holds a here-document operator, also inside substitutions (whose inner gaps the leaf spans do not show)
            import re as _re
            inner = []
            for m in _re.finditer(r'<<-?[ \t]?[A-Za-z0-9_]+(?=\n)', s):
                inside = any(a <= m.start() and m.end() <= b for (a, b, body) in spans if not body and ('$(' in s[a:b] or '`' in s[a:b] or '<(' in s[a:b] or '>(' in s[a:b]))
                for text in (' ', ' # c', '\t'):
                    (inner if inside else edits).append((m.end(), text))
            if len(edits) > 14: edits = rng.sample(edits, 14)
            for (p, text) in inner[:6]:
                cases.append(('C14inner', [p, len(text)], s, [('parse', {}, s), ('parse', {}, s[:p] + text + s[p:])]))
            for (p, text) in edits:
                # never split a backslash-newline pair (a span that ends in a backslash is defect D31/D32: the position after it is no gap)
                if 0 < p <= len(s) and s[p - 1] == '\\': continue
                s2 = s[:p] + text + s[p:]
                cases.append(('C14', [p, len(text)], s, [('parse', {}, s), ('parse', {}, s2)]))
    if ctx.get('replay'):
        rp = json.load(open(ctx['replay']))
        cases = [(rp['rel'], rp['params'], rp['input'], [tuple(r) for r in rp['requests']])]
    # ---- run all requests once ----
    uniq = {}
    for _, _, _, rs in cases:
        for r in rs:
            uniq.setdefault((r[0], json.dumps(r[1], sort_keys=True), r[2]), r)
    reqs = list(uniq.values())
    out = {}
    classes = collections.Counter(); corr_broken = []
    for (req, i, m, it, mt) in runner.run_all(reqs):
        out[(req[0], json.dumps(req[1], sort_keys=True), req[2])] = i
        classes[runner.outcome_class(i)] += 1
        if common.obs_tree(i) != common.obs_tree(m):
            corr_broken.append(dict(request=[req[0], req[1], req[2]], impl=i[:400], model=m[:400]))
    items = [(p, params, src, [out[(r[0], json.dumps(r[1], sort_keys=True), r[2])] for r in rs]) for p, params, src, rs in cases]
    violations = []; finding_hits = {}; sig_count = collections.Counter(); nontrivial = set()
    for k in range(0, len(items), 1000):
        for (case, item, sigs) in zip(cases[k:], items[k:k + 1000], rel_batch(items[k:k + 1000])):
            if item[3][0].startswith('OK [{') or item[3][0].startswith('EXN'): nontrivial.add((case[0], case[2]))
            for sig in sigs:
                sig = '%s:%s' % (case[0], sig)
                if case[0] == 'C14' and isinstance(case[1], list) and case[1] and re.search(r'<<-?[ \t]?[A-Za-z0-9_]+$', case[2][:case[1][0]]):
                    sig += '+after-heredoc-delimiter'
                sig_count[sig] += 1
                fid = common.match_finding(findings, sig, case[2])
                if fid: finding_hits.setdefault(fid, case[2][:80])
                elif len(violations) < 25 and not any(v['signature'] == sig for v in violations):
                    violations.append(dict(property=prop, rel=case[0], params=case[1], input=case[2], requests=[list(r) for r in case[3]],
                                           impl_outcomes=[o[:1500] for o in item[3]], signature=sig,
                                           how='relation %s (lean/Bashlex/Spec/Eval.lean relEval) evaluated on the implementation\'s outcomes' % case[0]))
    return dict(evaluations=len(cases), distinct_nontrivial=len(nontrivial),
                rule='relational cases built from corpus + seeded generated scripts (see tools/propchecks/relprops.py for the grid per property); every '
                     'underlying call also goes through the model; non-trivial = distinct (relation, input) whose first call returns a non-empty tree or an error',
                samples=[[c[0], c[1], c[2]] for c in cases[:3] + cases[-3:]],
                violations=violations, finding_hits=finding_hits, corr_broken=corr_broken, classes=dict(classes),
                extra=dict(signature_counts=dict(sig_count), calls=len(reqs)))
