"""C08 / C09 at token level: bashlex's LRParser.parse driven by a synthetic token source versus
(a) the Lean engine on the regenerated tables (verdict, tokens fetched, reduction trace) and
(b) an independent Earley recogniser on the declared grammar (the <= direction, bounded)."""
import collections, itertools, random, json, sys
import canon, gen, runner
from propchecks import common

ALPHABETS = {
    'lists': ['WORD', 'BAR', 'AND_AND', 'OR_OR', 'SEMICOLON', 'AMPERSAND', 'NEWLINE', 'BANG', 'BAR_AND'],
    'if': ['IF', 'THEN', 'ELSE', 'ELIF', 'FI', 'WORD', 'SEMICOLON', 'NEWLINE'],
    'loops': ['WHILE', 'UNTIL', 'FOR', 'DO', 'DONE', 'IN', 'WORD', 'SEMICOLON', 'NEWLINE', 'LEFT_CURLY', 'RIGHT_CURLY'],
    'case': ['CASE', 'ESAC', 'IN', 'WORD', 'LEFT_PAREN', 'RIGHT_PAREN', 'BAR', 'SEMI_SEMI', 'SEMI_AND', 'NEWLINE'],
    'functions': ['FUNCTION', 'WORD', 'LEFT_PAREN', 'RIGHT_PAREN', 'LEFT_CURLY', 'RIGHT_CURLY', 'SEMICOLON', 'NEWLINE'],
    'redirections': ['WORD', 'NUMBER', 'GREATER', 'LESS', 'GREATER_AND', 'DASH', 'ASSIGNMENT_WORD', 'AND_GREATER', 'NEWLINE', 'BAR'],
}

class FakeLexer(object):
    """a token source for LRParser.parse with the attributes the semantic actions look at"""
    def __init__(self, bl, names, sub):
        self.bl = bl; T = bl.tokenizer
        self.names = names; self.i = 0
        self._parserstate = bl.state.parserstate()
        self._shell_eof_token = None
        if sub:
            self._parserstate.add(bl.flags.parser.CMDSUBST); self._parserstate.add(bl.flags.parser.EOFTOKEN)
            self._shell_eof_token = T.token(T.tokentype.RIGHT_PAREN, ')')
        self._current_token = T.token(None, None)
        self.redirstack = []
        self.source = 'x' * len(names)
        self._strictmode = True
        self.fetched = 0
    def token(self):
        T = self.bl.tokenizer
        if self.i >= len(self.names):
            t = T.token(T.tokentype.EOF, None)
        else:
            tt = T.tokentype[self.names[self.i]]
            v = tt.value if isinstance(tt.value, str) else {'NUMBER': 1, 'WORD': 'w', 'ASSIGNMENT_WORD': 'a=b', 'LEFT_CURLY': '{', 'RIGHT_CURLY': '}'}.get(tt.name, tt.name.lower())
            fl = self.bl.utils.typedset(self.bl.flags.word) if tt.name in ('WORD', 'ASSIGNMENT_WORD') else None
            t = T.token(tt, v, (self.i, self.i + 1), fl)
            self.i += 1; self.fetched += 1
        self._current_token = t
        return t

class FakeParser(object):
    def __init__(self, lexer):
        self.tok = lexer; self.redirstack = lexer.redirstack; self.s = lexer.source
        self._expansionlimit = None; self._proceedonerror = False; self._strictmode = True
        self.parserstate = lexer._parserstate

_trace = []
_wrapped = False
_last_parser = None

def error_state_kind(bl):
    """after a ParsingError: does the state the engine stopped in have exactly one distinct reduce
    (bison would take it by default on any token; PLY has no default reductions)"""
    st = getattr(_last_parser, 'state', None)
    acts = bl.parser.yaccparser.action.get(st, {})
    reduces = set(v for v in acts.values() if v < 0)
    return 'single-reduce-state' if len(reduces) == 1 and not any(v > 0 for v in acts.values()) else \
           'single-reduce-and-shifts' if len(reduces) == 1 else 'other-state'

def wrap_productions(bl):
    """log the production number of every reduce (wrappers installed by the harness; no repo hook)"""
    global _wrapped
    if _wrapped: return
    for p in bl.parser.yaccparser.productions:
        if getattr(p, 'callable', None):
            def mk(f, num):
                def w(pslice):
                    _trace.append(num)
                    return f(pslice)
                return w
            p.callable = mk(p.callable, p.number)
    _wrapped = True

def impl_lr(bl, names, sub):
    import copy
    wrap_productions(bl)
    del _trace[:]
    lx = FakeLexer(bl, names, sub)
    global _last_parser
    _last_parser = copy.copy(bl.parser.yaccparser)
    try:
        r = _last_parser.parse(lexer=lx, context=FakeParser(lx))
        if isinstance(r, bl.ast.node): return 'ACC %d %s' % (lx.fetched, '.'.join(map(str, _trace)))
        return 'BLANK %d' % lx.fetched
    except bl.errors.ParsingError as e:
        return 'EXN PE|%s|%d' % (e.message.split(' ')[1], e.position)
    except NotImplementedError:
        return 'EXN NI'
    except Exception as e:
        return 'EXN F|%s' % type(e).__name__

def real_streams(bl, inputs):
    """for each input: (input, verdict of parsesingle, terminal names the TOP-LEVEL tokenizer delivered to the engine,
    [(declared mode, raw terminal names) of every nested parser]).
    The names are taken from `ttype`, the classification the tokenizer decided on - what the engine is told must be that.
    Declared mode of a nested parser: 'sub' when it was created through _parsedolparen ($( ), <( ), >( ): ends at the closing
    parenthesis), 'top' otherwise (backquotes: a list up to the end of the text).  Raw = as returned by _readtoken, before
    token() turns the parser's end token into EOF."""
    T = bl.tokenizer.tokenizer
    S = bl.subst
    orig_token, orig_read, orig_init = T.token, getattr(T, '_readtoken', None), T.__init__
    # (internals: if a rewrite renamed them, nested streams are simply not recorded)
    orig_dol, orig_rec = getattr(S, '_parsedolparen', None), getattr(S, '_recursiveparse', None)
    nested_ok = callable(orig_dol) and callable(orig_rec) and hasattr(T, '_readtoken')
    rec = {}; order = []; raw = {}; modes = {}; st = {'pending': None, 'next': None}
    def token(self):
        t = orig_token(self)
        k = id(self)
        if k not in rec: rec[k] = []; order.append(k)
        rec[k].append(getattr(getattr(t, 'ttype', None), 'name', 'None'))
        return t
    def readtoken(self):
        t = orig_read(self)
        tt = t if isinstance(t, bl.tokenizer.tokentype) else getattr(t, 'ttype', None)
        raw.setdefault(getattr(self, '_verif_key', 0), []).append(getattr(tt, 'name', 'None'))
        return t
    def init(self, *a, **k):
        orig_init(self, *a, **k)
        st['n'] = st.get('n', 0) + 1; self._verif_key = st['n']         # (object ids are reused within one call)
        modes[self._verif_key] = st['next'] or 'outer'; st['next'] = None
    def dol(*a, **k):
        st['pending'] = 'sub'
        return orig_dol(*a, **k)
    def recp(*a, **k):
        st['next'] = st['pending'] or 'top'; st['pending'] = None
        return orig_rec(*a, **k)
    T.token = token
    if nested_ok:
        T._readtoken = readtoken; T.__init__ = init; S._parsedolparen = dol; S._recursiveparse = recp
    out = []
    try:
        for s in inputs:
            rec.clear(); del order[:]; raw.clear(); modes.clear(); st['pending'] = st['next'] = None
            try:
                r = bl.parsesingle(s); verdict = 'ACC' if r is not None else 'BLANK'
            except bl.errors.ParsingError as e:
                # only p_error's messages are verdicts of the engine; the tokenizer's own errors (unterminated quote, here-document) are not
                verdict = 'REJ' if (e.message.startswith('unexpected token') or e.message == 'unexpected EOF') else 'OTHER'
            except NotImplementedError: verdict = 'OTHER'
            except Exception as e: verdict = 'FOREIGN:' + type(e).__name__
            nested = [(modes.get(k), list(v)) for k, v in raw.items() if modes.get(k) in ('sub', 'top')]
            out.append((s, verdict, list(rec[order[0]]) if order else [], nested))
    finally:
        T.token = orig_token
        if nested_ok:
            T._readtoken = orig_read; T.__init__ = orig_init; S._parsedolparen = orig_dol; S._recursiveparse = orig_rec
    return out

def norm_model(line):
    if line.startswith('EXN PE|'):
        parts = line.split('|')
        return 'EXN PE|%s|%s' % (parts[1].strip('"').split(' ')[1], parts[-1])
    if line.startswith('EXN F|'): return 'EXN F|' + line.split('|')[1]
    return line

# ---- independent Earley recogniser on the declared grammar ----
class Earley(object):
    def __init__(self, bl):
        self.prods = collections.defaultdict(list)
        for p in bl.parser.yaccparser.productions[1:]:
            self.prods[p.name].append(tuple(p.prod))
        self.nts = set(self.prods)
    def prefixes(self, start, toks):
        """set of k such that toks[:k] is derivable from `start`"""
        n = len(toks)
        chart = [set() for _ in range(n + 1)]
        def add(k, item, work):
            if item not in chart[k]: chart[k].add(item); work.append(item)
        work = []
        for rhs in self.prods[start]: add(0, (start, rhs, 0, 0), work)
        res = set()
        for k in range(n + 1):
            work = list(chart[k])
            while work:
                (lhs, rhs, dot, origin) = work.pop()
                if dot == len(rhs):
                    if lhs == start and origin == 0: res.add(k)
                    for (l2, r2, d2, o2) in list(chart[origin]):
                        if d2 < len(r2) and r2[d2] == lhs: add(k, (l2, r2, d2 + 1, o2), work)
                else:
                    x = rhs[dot]
                    if x in self.nts:
                        for r in self.prods[x]: add(k, (x, r, 0, k), work)
                        # nullable completion already in chart[k]
                        for (l2, r2, d2, o2) in list(chart[k]):
                            if l2 == x and d2 == len(r2) and o2 == k: add(k, (lhs, rhs, dot + 1, origin), work)
                    elif k < n and toks[k] == x:
                        chart[k + 1].add((lhs, rhs, dot + 1, origin))
        return res

def expected(earley, names, sub):
    """what the declared grammar says: ('ACC', k) with k tokens fetched, ('BLANK',) or ('REJ',)"""
    if sub:
        # the command is `simple_list`, ended by ')': accept iff names = w + [RIGHT_PAREN] + ... with w derivable
        lead = 0
        while lead < len(names) and names[lead] == 'NEWLINE': lead += 1
        rest = names[lead:]
        ks = earley.prefixes('simple_list', rest)
        cands = sorted(k for k in ks if k < len(rest) and rest[k] == 'RIGHT_PAREN' and k > 0)
        return ('ACC', lead + cands[0] + 1) if cands else ('REJ',)
    lead = 0
    while lead < len(names) and names[lead] == 'NEWLINE': lead += 1
    rest = names[lead:]
    if not rest: return ('BLANK',)
    ks = sorted(k for k in earley.prefixes('inputunit', rest) if k > 1 or (k == 1 and rest[0] != 'NEWLINE'))
    return ('ACC', lead + ks[0]) if ks else ('REJ',)

def run(ctx):
    prop, tier, seed, findings = ctx['prop'], ctx['tier'], ctx['seed'], ctx['findings']
    maxlen = 4 if tier == 'quick' else 6
    bl = runner.get_bashlex()
    terms = ['$end', 'error'] + [t.name for t in bl.tokenizer.tokentype]
    tid = {n: i for i, n in enumerate(terms)}
    earley = Earley(bl)
    rng = random.Random(seed)
    cases = []
    for aname, alpha in sorted(ALPHABETS.items()):
        for n in range(1, maxlen + 1):
            for seq in itertools.product(alpha, repeat=n):
                cases.append((aname, list(seq)))
        # longer sampled sequences
        for _ in range(1500 if tier == 'quick' else 30000):
            cases.append((aname, [rng.choice(alpha) for _ in range(rng.randint(maxlen + 1, maxlen + 5))]))
    if ctx.get('replay'):
        rp = json.load(open(ctx['replay'])); cases = [(rp.get('alphabet', '?'), rp['tokens'])] if 'input' not in rp else []
    lines = []; meta = []
    for aname, seq in cases:
        top = seq + ['NEWLINE']
        sub = seq + ['RIGHT_PAREN']
        for mode, names in (('top', top), ('sub', sub)):
            lines.append('lr\t%s\t%s' % (mode, '.'.join(str(tid[x]) for x in names))); meta.append((aname, mode, names))
    replies = []
    for k in range(0, len(lines), 20000): replies += runner.model_batch(lines[k:k + 20000])
    classes = collections.Counter(); corr_broken = []; violations = []; finding_hits = {}; sig_count = collections.Counter()
    nontrivial = 0
    for (aname, mode, names), rep in zip(meta, replies):
        i = impl_lr(bl, names, mode == 'sub')
        m = norm_model(rep)
        classes[i.split(' ')[0] + ('' if not i.startswith('EXN') else ' ' + i.split('|')[0][4:])] += 1
        if i != m:
            corr_broken.append(dict(alphabet=aname, mode=mode, tokens=names, impl=i, model=m))
        exp = expected(earley, names, mode == 'sub')
        got = ('ACC', int(i.split(' ')[1])) if i.startswith('ACC') else ('BLANK',) if i.startswith('BLANK') else ('REJ',) if i.startswith('EXN PE') else ('OTHER', i)
        if got[0] == 'ACC': nontrivial += 1
        if got != exp:
            if got[0] == 'OTHER': sig = 'internal-failure:' + i
            elif got[0] == 'ACC' and mode == 'sub' and names[got[1] - 1] == 'NEWLINE': sig = 'accepts-at-newline-in-substitution'
            elif got[0] == 'ACC' and exp[0] != 'ACC': sig = 'accepts-underivable:%s' % mode
            elif got[0] == 'ACC': sig = 'accepts-at-other-prefix:%s' % mode
            elif exp[0] == 'ACC':
                sig = 'rejects-derivable:%s' % mode
                if mode == 'sub' and i.startswith('EXN PE') and int(i.split('|')[-1]) == exp[1] - 1:
                    impl_lr(bl, names, True)      # re-run to read the engine's error state
                    sig += ':at-rparen:' + error_state_kind(bl)
            else: sig = 'verdict-differs:%s' % mode
            sig_count[sig] += 1
            fid = common.match_finding(findings, sig, ' '.join(names))
            if fid: finding_hits.setdefault(fid, ' '.join(names))
            elif len(violations) < 25 and not any(v['signature'] == sig for v in violations):
                violations.append(dict(property=prop, alphabet=aname, mode=mode, tokens=names, signature=sig, impl=i, grammar_says=list(exp),
                                       how='LRParser.parse on a synthetic token source versus an Earley recogniser on the declared grammar'))
    # ---- the engine on real token streams: what the tokenizer classified is what the grammar decides on ----
    if not ctx.get('replay') or 'input' in json.load(open(ctx['replay'])):
        ins = common.dedup(common.corpus_inputs() + common.random_scripts(seed, 1500 if tier == 'quick' else 20000, mutate=1, unsupported=0))
        # nested parsers in both modes with bodies that are not sentences of their mode (a stray closing parenthesis and the like)
        ins += [c % b for c in ['$(`%s`)', '$(a `%s`)', '<(`%s`)', '"$(`%s`)"', '$(x $(`%s`))', '`%s`', 'a `%s` b', '$(%s)', '`$(%s)`', 'a $(b `c $(%s)`)', 'case x in a) `%s`;; esac', '$(case x in a) `%s`;; esac)']
                for b in ['b)', 'b) c', 'b; c) d', 'b ) &&', 'a )', 'a;)', '(a))', 'a | b)', 'b)c', 'a &)', 'a; b', 'a && b', '(a)', 'a;', 'fi', 'a; }', 'do a']]
        if ctx.get('replay'): ins = [json.load(open(ctx['replay']))['input']]
        # (here-documents are read by the tokenizer from the text; the token-level engine has none)
        allstreams = real_streams(bl, [s for s in ins if '<<' not in s])
        # "every accepted sentence is reduced without an internal failure": an exception of another type than ParsingError / NotImplementedError on an input the
        # MODEL accepts (so its token sequence is a sentence, by C09_sound, and the unfailing run exists) is an internal failure of the implementation
        foreign = [x for x in allstreams if x[1].startswith('FOREIGN:')]
        if foreign:
            for x, rep in zip(foreign, runner.model_batch([runner.req_line('single', {}, x[0]) for x in foreign])):
                classes['real-stream:foreign'] += 1
                if rep.startswith('ONE '):
                    sig = 'internal-failure-on-sentence:' + x[1].split(':', 1)[1]
                    sig_count[sig] += 1
                    fid = common.match_finding(findings, sig, x[0])
                    if fid: finding_hits.setdefault(fid, x[0][:80])
                    elif len(violations) < 25 and not any(v['signature'] == sig for v in violations):
                        violations.append(dict(property=prop, input=x[0], tokens=x[2], signature=sig, impl=x[1], model_engine=rep[:200],
                                               how='parsesingle raised an exception that is neither ParsingError nor NotImplementedError on an input whose token sequence the Lean model reduces to a tree'))
        streams = [x for x in allstreams if x[1] in ('ACC', 'BLANK', 'REJ') and all(n in tid for n in x[2]) and not any(n.startswith('LESS_LESS') for n in x[2] if n != 'LESS_LESS_LESS')]
        rl = ['lr\ttop\t%s' % '.'.join(str(tid[n]) for n in names) for _, _, names, _ in streams]
        rr = []
        for k in range(0, len(rl), 20000): rr += runner.model_batch(rl[k:k + 20000])
        # nested parsers of accepted inputs: each accepted its own stream, in its declared mode
        nl = []; nmeta = []
        for (src, verdict, names, nested) in streams:
            if verdict != 'ACC': continue
            for mode, nn in nested:
                if nn and all(n in tid for n in nn) and not any(n.startswith('LESS_LESS') and n != 'LESS_LESS_LESS' for n in nn):
                    nl.append('lr\t%s\t%s' % (mode, '.'.join(str(tid[n]) for n in nn))); nmeta.append((src, mode, nn))
        nr = []
        for k in range(0, len(nl), 20000): nr += runner.model_batch(nl[k:k + 20000])
        for (src, mode, nn), rep in zip(nmeta, nr):
            classes['nested-stream:' + mode] += 1
            if not rep.startswith('ACC') and not rep.startswith('BLANK'):
                sig = 'accepts-underivable:real-tokens:nested-' + mode
                sig_count[sig] += 1
                fid = common.match_finding(findings, sig, src)
                if fid: finding_hits.setdefault(fid, src[:80])
                elif len(violations) < 25 and not any(v['signature'] == sig for v in violations):
                    violations.append(dict(property=prop, input=src, tokens=nn, mode=mode, signature=sig, impl='ACC', model_engine=rep[:200],
                                           how='the input was accepted, so every nested parser accepted its token stream (raw terminal names recorded from _readtoken); the Lean '
                                               'engine on the regenerated tables rejects that stream in the mode the construct declares (sub: $( ) <( ) >( ); top: backquotes)'))
        lines = lines + nl
        for (src, verdict, names, _nested), rep in zip(streams, rr):
            mv = 'ACC' if rep.startswith('ACC') else 'BLANK' if rep.startswith('BLANK') else 'REJ' if rep.startswith('EXN PE') else 'OTHER'
            classes['real-stream:' + verdict] += 1
            sig = None
            if verdict in ('ACC', 'BLANK'):
                # the real engine accepted this stream: the declared grammar (Lean engine on the regenerated tables, C09_exact) must accept it,
                # having fetched the same number of tokens
                if mv != verdict: sig = 'accepts-underivable:real-tokens'
                elif verdict == 'ACC' and int(rep.split(' ')[1]) != len(names): sig = 'accepts-at-other-prefix:real-tokens'
                nontrivial += verdict == 'ACC'
            elif not any(x in src for x in ('$', '`', '<(', '>(', '<<')) and mv != 'REJ':
                # rejected without nested parsers or here-documents involved: the engine itself rejected
                sig = 'rejects-derivable:real-tokens'
            if sig:
                sig_count[sig] += 1
                fid = common.match_finding(findings, sig, src)
                if fid: finding_hits.setdefault(fid, src[:80])
                elif len(violations) < 25 and not any(v['signature'] == sig for v in violations):
                    violations.append(dict(property=prop, input=src, tokens=names, signature=sig, impl=verdict, model_engine=rep[:200],
                                           how='parsesingle on the input with the terminal names (ttype) delivered by the top-level tokenizer recorded; the same '
                                               'sequence run through the Lean engine on the regenerated tables'))
        lines = lines + rl
    return dict(evaluations=len(lines), distinct_nontrivial=nontrivial,
                rule='all token sequences up to length %d over six terminal sub-alphabets (lists/pipelines, if, loops, case, functions/groups, redirections) plus sampled '
                     'longer ones, each in top-level mode (followed by NEWLINE) and in command-substitution mode (followed by RIGHT_PAREN); compared: verdict, number of '
                     'tokens fetched and the full reduction trace of the real engine versus the Lean engine on the regenerated tables, and the verdict versus an '
                     'independent Earley recogniser; plus the engine on REAL token streams: corpus and generated scripts are parsed with the terminal names (ttype) the '
                     'top-level tokenizer delivered recorded, and the Lean engine must reach the same verdict on that sequence; non-trivial = accepted sentences' % maxlen,
                samples=[' '.join(m[2]) for m in meta[:2] + meta[-2:]],
                violations=violations, finding_hits=finding_hits, corr_broken=corr_broken, classes=dict(classes),
                exhaustive=True, extra=dict(signature_counts=dict(sig_count)))
