"""C01 disciplined totality: outcome classes of the three entry points under the option grid."""
import collections
import canon, gen, runner
from propchecks import common

def run(ctx):
    tier, seed, findings = ctx['tier'], ctx['seed'], ctx['findings']
    maxlen, nrandom, mutate = (3, 1200, 2) if tier == 'quick' else (4, 20000, 3)
    inputs = common.dedup(common.finding_witnesses(findings) + common.corpus_inputs() +
                          common.random_scripts(seed, nrandom, mutate=mutate, unsupported=0.05))
    core = list(gen.exhaustive(maxlen))
    if ctx.get('replay'):
        import json
        inputs = [json.load(open(ctx['replay']))['input']]; core = []
    some_opts = [dict(), dict(strictmode=False, proceedonerror=True, convertpos=True, expansionlimit=0),
                 dict(proceedonerror=True, expansionlimit=1), dict(convertpos=True, expansionlimit=2)]
    reqs = []
    for s in inputs:
        grid = common.GRID_FULL if (tier == 'thorough' or len(s) < 30) else some_opts
        for o in grid: reqs.append(('parse', o, s))
        reqs.append(('single', {}, s)); reqs.append(('single', dict(convertpos=True, proceedonerror=True, strictmode=False), s))
        reqs.append(('split', {}, s))
    for s in core:
        reqs.append(('parse', {}, s)); reqs.append(('parse', some_opts[1], s)); reqs.append(('split', {}, s))
    classes = collections.Counter(); corr_broken = []; violations = []; finding_hits = {}
    tree_items = []; tree_reqs = []
    nontrivial = set()
    def bad(req, i, sig):
        fid = common.match_finding(findings, sig, req[2])
        if fid: finding_hits.setdefault(fid, req[2][:80])
        elif len(violations) < 25 and not any(v['signature'] == sig for v in violations):
            violations.append(dict(property='C01', input=req[2], options=req[1], entry=req[0], signature=sig, impl_outcome=i[:1000],
                                   how='outcome class of the implementation is neither the documented result nor ParsingError/NotImplementedError'))
    for (req, i, m, it, mt) in runner.run_all(reqs):
        c = runner.outcome_class(i)
        classes[c] += 1
        if c != runner.outcome_class(m):
            corr_broken.append(dict(request=[req[0], req[1], req[2]], impl=i[:300], model=m[:300]))
        if c == 'timeout':
            # wall-clock budgets can fire on a loaded machine: confirm alone with a generous budget
            again = canon.norm_outcome(canon.run(runner.get_bashlex(), req[0], req[2], timeout=300, **(req[1] if req[0] != 'split' else {})))
            if runner.outcome_class(again) != 'timeout':
                classes['timeout-not-confirmed'] += 1; c = runner.outcome_class(again); i = again
        if c.startswith('foreign:') or c in ('timeout', 'other'):
            bad(req, i, c)
        elif i.startswith('OK ') or i.startswith('ONE '):
            if not req[1].get('convertpos'):
                tree_items.append((req[2], i)); tree_reqs.append(req)
            nontrivial.add(req[2])
    # "no non-node value is returned in place of a tree": typed deserialisation of every returned tree
    for k in range(0, len(tree_items), 2000):
        items = tree_items[k:k + 2000]
        for req, (s, o), res in zip(tree_reqs[k:], items, common.spec_batch(['C12'], items)):
            if 'ILL' in res: bad(req, o, 'ill-typed:' + res['ILL'])
    return dict(evaluations=len(reqs), distinct_nontrivial=len(nontrivial),
                rule='parse x option grid (strictmode x expansionlimit in {None,0,1,2} x convertpos x proceedonerror; full grid for short inputs and in the '
                     'thorough tier), parsesingle, split on: finding witnesses + corpus + every string of length <= %d over the 24-symbol alphabet + %d '
                     'seeded generated scripts with %d mutations each; non-trivial = distinct input that returns a tree' % (maxlen, nrandom, mutate),
                samples=[[r[0], r[1], r[2]] for r in reqs[:2] + reqs[-2:]],
                violations=violations, finding_hits=finding_hits, corr_broken=corr_broken, classes=dict(classes))
