"""C01 disciplined totality: outcome classes of the three entry points under the option grid."""
import time
import collections
import canon, gen, runner
from propchecks import common

def run(ctx):
    tier, seed, findings = ctx['tier'], ctx['seed'], ctx['findings']
    maxlen, nrandom, mutate = (3, 1200, 2) if tier == 'quick' else (4, 20000, 3)
    inputs = common.dedup(common.finding_witnesses(findings) + common.corpus_inputs() +
                          common.random_scripts(seed, nrandom, mutate=mutate, unsupported=0.05))
    core = list(gen.exhaustive(maxlen))
    # sizes: very long tokens and digit runs (Python's int() refuses more than 4300 digits), long flat lists
    big = ['1' * 5000, 'a ' + '1' * 4301 + '>f', 'a >&' + '9' * 4400, 'a <&' + '0' * 4301 + '-', 'a' * 8000, '"' + 'b' * 8000 + '"', "'" + 'c ' * 5000 + "'",
           'a ' * 3000, 'a;' * 1500, 'a |' * 600 + 'b', 'x=' + '1' * 6000, '$' + 'v' * 6000, '${' + 'v' * 6000 + '}', 'a #' + 'c' * 10000, 'a <<E\n' + 'x\n' * 3000 + 'E\n']
    # long runs of one layout or quoting feature (nothing but substitution nesting may cost interpreter stack)
    cont = '\\\n' * 2500
    big += ['a ' + cont + ' b', 'a' + cont + 'b', '"a' + cont + 'b"', 'a $(b ' + cont + ' c)', 'a <<E\nx' + cont + 'y\nE\n', cont + 'a', 'a `b' + cont + '`', 'a ${v' + cont + '}',
            'a ' + '\n' * 3000 + 'b', ' ' * 6000 + 'a', 'a' + '\\ ' * 3000, 'a ' + "''" * 3000, 'a ' + '""' * 3000, 'a ' + '$v' * 3000, 'a ' + '~' * 3000, '! ' * 1500 + 'a', 'a ' + '>f ' * 1500]
    # "all Unicode strings": characters outside ASCII in every token position (the model is exact on ASCII only: for these
    # inputs only the implementation's outcome class is judged, there is no correspondence to compare)
    uni = []
    for ch in ['\u00b2', '\u2460', '\u0663', '\u00e9', '\u00a0', '\u2003', '\u0301', '\u05d0', '\u4e2d', '\U0001f600', '\u200b', '\ufeff', '\x85', '\x7f', '\x00', '\x1b', '\r']:
        for tmpl in ['%s', '%s>f', 'a %s<b', 'a >&%s', 'a 1%s>f', '%s=1', 'a=%s', '$%s', '${%s}', '"%s"', "'%s'", '%s() { a; }', 'for %s in a; do b; done', 'a <<%s\nb\n%s\n',
                     'case %s in %s) a;; esac', '`%s`', '$(a %s)', 'a # %s', 'a %s\\\n', 'a\\%s', '~%s', 'a $(b %s>f)', 'a <(%s)', 'a;%s;b']:
            uni.append(tmpl.replace('%s', ch))
    core = core + big + uni
    if ctx.get('replay'):
        import json
        inputs = [json.load(open(ctx['replay']))['input']]; core = []
    some_opts = [dict(), dict(strictmode=False, proceedonerror=True, convertpos=True, expansionlimit=0),
                 dict(proceedonerror=True, expansionlimit=1), dict(convertpos=True, expansionlimit=2)]
    reqs = []
    for s in inputs:
        grid = common.GRID_FULL if (tier == 'thorough' or len(s) < 30) else some_opts
        for o in grid: reqs.append(('parse', o, s))
        reqs.append(('single', {}, s)); reqs.append(('single', dict(convertpos=True, proceedonerror=True, strictmode=False), s))
        reqs.append(('split', {}, s))
    for s in core:
        reqs.append(('parse', {}, s)); reqs.append(('parse', some_opts[1], s)); reqs.append(('split', {}, s))
    classes = collections.Counter(); corr_broken = []; violations = []; finding_hits = {}
    tree_items = []; tree_reqs = []
    nontrivial = set()
    def bad(req, i, sig):
        fid = common.match_finding(findings, sig, req[2])
        if fid: finding_hits.setdefault(fid, req[2][:80])
        elif len(violations) < 25 and not any(v['signature'] == sig for v in violations):
            violations.append(dict(property='C01', input=req[2], options=req[1], entry=req[0], signature=sig, impl_outcome=i[:1000],
                                   how='outcome class of the implementation is neither the documented result nor ParsingError/NotImplementedError'))
    timeouts = []
    for (req, i, m, it, mt) in runner.run_all(reqs):
        c = runner.outcome_class(i)
        classes[c] += 1
        # (an exhausted wall-clock budget is compared with the model only after it has been re-run alone, below: on a loaded machine budgets fire spuriously)
        if c != 'timeout' and c != runner.outcome_class(m) and all(ord(ch) < 128 and ch != '\x00' for ch in req[2]):
            corr_broken.append(dict(request=[req[0], req[1], req[2][:2000]], impl=i[:300], model=m[:300]))
        if c == 'timeout':
            timeouts.append((req, m)); continue
        if c.startswith('foreign:') or c in ('timeout', 'other'):
            bad(req, i, c)
        elif i.startswith('OK ') or i.startswith('ONE '):
            if not req[1].get('convertpos'):
                tree_items.append((req[2], i)); tree_reqs.append(req)
            nontrivial.add(req[2])
    # wall-clock budgets can fire on a loaded machine: every exhausted budget is re-run alone, in a fresh
    # process, shortest input first, with a generous budget; once CONFIRM_MAX of them are confirmed the
    # rest is not re-run (the violation is established, and a change that hangs must not hang the check)
    CONFIRM_MAX = 3; confirmed = 0; t_conf = time.time()
    for req, m in sorted(timeouts, key=lambda t: (len(t[0][2]), t[0][2], t[0][0])):
        if confirmed >= CONFIRM_MAX or time.time() - t_conf > 1200:
            classes['timeout-not-rerun'] += 1; continue
        again = runner.confirm_alone(req, timeout=60)
        c = runner.outcome_class(again)
        if c != runner.outcome_class(m) and all(ord(ch) < 128 and ch != '\x00' for ch in req[2]):
            corr_broken.append(dict(request=[req[0], req[1], req[2][:2000]], impl=again[:300], model=m[:300]))
        if c != 'timeout':
            classes['timeout-not-confirmed'] += 1; classes[c] += 1
            if c.startswith('foreign:') or c == 'other': bad(req, again, c)
            elif (again.startswith('OK ') or again.startswith('ONE ')) and not req[1].get('convertpos'):
                tree_items.append((req[2], again)); tree_reqs.append(req); nontrivial.add(req[2])
        else:
            confirmed += 1; classes['timeout-confirmed'] += 1
            bad(req, again, 'timeout')
    # "no non-node value is returned in place of a tree": typed deserialisation of every returned tree
    for k in range(0, len(tree_items), 2000):
        items = tree_items[k:k + 2000]
        for req, (s, o), res in zip(tree_reqs[k:], items, common.spec_batch(['C12'], items)):
            if 'ILL' in res: bad(req, o, 'ill-typed:' + res['ILL'])
    # measured generator quality: statement coverage of the implementation by a sample of the requests
    line_cov = {}
    try:
        import subprocess, json as _json, os as _os, random as _random
        rs = _random.Random(seed)
        sample = [list(r) for r in (rs.sample(reqs, min(len(reqs), 4000 if tier == 'quick' else 30000)))]
        p = subprocess.run(['/venv/bin/python', _os.path.join(_os.path.dirname(_os.path.abspath(canon.__file__)), 'covrun.py')],
                           input=_json.dumps(sample).encode(), stdout=subprocess.PIPE, stderr=subprocess.DEVNULL, timeout=900)
        d = _json.loads(p.stdout)
        line_cov = {k: (v if k == '_total' else dict(percent=v['percent'], missing=v['missing'][:600])) for k, v in d.items()
                    if k in ('_total', 'parser.py', 'tokenizer.py', 'subst.py', 'heredoc.py', 'ast.py')}
        line_cov['sampled_requests'] = len(sample)
    except Exception as e:
        line_cov = {'error': repr(e)[:200]}
    return dict(extra=dict(implementation_line_coverage=line_cov), evaluations=len(reqs), distinct_nontrivial=len(nontrivial),
                rule='parse x option grid (strictmode x expansionlimit in {None,0,1,2} x convertpos x proceedonerror; full grid for short inputs and in the '
                     'thorough tier), parsesingle, split on: finding witnesses + corpus + every string of length <= %d over the 24-symbol alphabet + %d '
                     'seeded generated scripts with %d mutations each; non-trivial = distinct input that returns a tree' % (maxlen, nrandom, mutate),
                samples=[[r[0], r[1], r[2]] for r in reqs[:2] + reqs[-2:]],
                violations=violations, finding_hits=finding_hits, corr_broken=corr_broken, classes=dict(classes))
