"""C18: outcomes depend on the arguments only, never on the call history.  Every call of a history
(sequential, re-entrant at a token boundary, aborted by an exception) is compared with the outcome of
the same call alone in a FRESH interpreter and with the history-free Lean model; module-level state
is snapshotted around every call."""
import collections, random, json, subprocess, hashlib, os, sys, multiprocessing as mp
import canon, gen, runner
from propchecks import common

HERE = os.path.dirname(os.path.abspath(__file__))
FRESH = os.path.join(HERE, '..', 'harness', 'fresh.py')

def fresh_outcome(req):
    p = subprocess.run(['/venv/bin/python', FRESH, runner.REPO, json.dumps(req)], stdout=subprocess.PIPE, stderr=subprocess.PIPE, timeout=60)
    return p.stdout.decode().rstrip('\n') if p.returncode == 0 else 'FRESH-FAILED ' + p.stderr.decode()[-200:]

def snapshot(bl):
    """deep structural snapshot of the module-level objects a parse could write (sh_syntaxtab apart)"""
    yp = bl.parser.yaccparser
    h = hashlib.sha256()
    def feed(x): h.update(repr(x).encode())
    feed(sorted((s, sorted(r.items())) for s, r in yp.action.items()))
    feed(sorted((s, sorted(r.items())) for s, r in yp.goto.items()))
    feed(sorted(yp.defaulted_states.items()))
    feed([(p.name, p.len, getattr(p, 'str', None)) for p in yp.productions])
    T = bl.tokenizer
    feed(sorted(map(repr, T._reserved))); feed(sorted(T.valid_reserved_first_command.items(), key=repr))
    feed(sorted(vars(T.eoftoken).items(), key=repr))
    feed([(t.name, t.value) for t in T.tokentype])
    feed(sorted((k, sorted(v)) for k, v in T.sh_syntaxtab.items() if v))      # classes of the keys that have any
    feed(sorted(k for k in vars(yp) if not k.startswith('__')))
    return h.hexdigest()

class Abort(Exception):
    pass

def run(ctx):
    tier, seed, findings = ctx['tier'], ctx['seed'], ctx['findings']
    quick = tier == 'quick'
    rng = random.Random(seed + 18)
    bl = runner.get_bashlex()
    pool_inputs = ['a b', 'a $(b $(c))', 'a <<E\nx\nE\n', '(', 'a &&', 'a )', 'a "b', 'select x in a; do b; done', 'time a', 'a\nb (', 'if a; then b; fi',
                   'a `b`', 'case x in a) b;; esac', 'a <<E', '` `', '', '#c', 'a $(b', 'f() { a; }', "a 'b' \"c\" \\d", 'a & b; c | d', 'a ${b} ~ $1', 'é=1', 'a\\\n b']
    # the same names in different syntactic positions (a memo keyed too coarsely shows only then)
    inter = ['f x', 'function f if a; then b; fi', 'function f while a; do b; done', 'f if', 'echo f done', 'f a=1', 'f() { a; }', 'a=1 f', 'for f in a; do f; done', 'case f in f) f;; esac',
             'f <<f\nf\n', '$(f) `f`', 'function f { f=1; }', 'if f; then f; fi', 'f $f ${f} "$f"', 'f | f && f',
             # calls that stop (or succeed) in an unusual tokenizer state, and calls that show a leaked state
             ';;', 'a ;; b', 'a;;', 'case a in', 'case a in b) c;;', 'a $(b ;;& c)', 'echo `case a in`', 'a=1', 'x=1 y', 'a+=(b c) d', 'a )', '(a', 'a <<E', 'a "', 'if a; then', '{ a;', 'a |', 'for i in', 'time a', 'coproc a',
             # calls that fail AFTER a here-document redirection was reduced and before its body was read (anything pending must die with the call),
             # and calls that read a newline token
             'a <<X; fi', 'cat <<EOF | )', 'cat <<E x "u', 'a <<-X <<<<b', 'a\nb', 'a\n\nb\n']
    pool_inputs += inter
    pool_inputs += [s for s in common.random_scripts(seed, 30 if quick else 300, mutate=1)]
    pool = []
    for s in pool_inputs:
        pool.append(('parse', {}, s))
        if rng.random() < 0.3: pool.append(('parse', dict(strictmode=False, proceedonerror=True, expansionlimit=1), s))
        if rng.random() < 0.2: pool.append(('single', dict(convertpos=True), s))
        if rng.random() < 0.2: pool.append(('split', {}, s))
    pool += [('split', {}, a) for a in [';;', 'a ;; b', 'case a in', 'a )']]
    pool = [p for p in pool if all(ord(c) < 128 for c in p[2])]
    if ctx.get('replay'):
        rp = json.load(open(ctx['replay'])); pool = [tuple(x) for x in rp['history']]
    with mp.Pool(16) as mpool:
        fresh = dict(zip([json.dumps(p, sort_keys=True) for p in pool], mpool.map(fresh_outcome, [list(p) for p in pool])))
    # the model's (history-free) outcome of every pool call
    model = {}
    for p, rep in zip(pool, runner.model_batch([runner.req_line(*p) for p in pool])):
        model[json.dumps(p, sort_keys=True)] = canon.norm_outcome(rep.rpartition(' ## ')[0])
    violations = []; corr_broken = []; sig_count = collections.Counter(); finding_hits = {}
    for k, v in fresh.items():
        if v != model[k]: corr_broken.append(dict(request=json.loads(k), impl=v[:300], model=model[k][:300]))
    def call(p):
        return canon.norm_outcome(canon.run(bl, p[0], p[2], **(p[1] if p[0] != 'split' else {})))
    def note(sig, history, detail):
        sig_count[sig] += 1
        if len(violations) < 25 and not any(v['signature'] == sig for v in violations):
            violations.append(dict(property='C18', history=[list(h) for h in history], signature=sig, detail=detail,
                                   how='outcome of a call inside a history versus the same call alone in a fresh interpreter; module state snapshots'))
    base_snap = snapshot(bl)
    base_keys = set(bl.tokenizer.sh_syntaxtab.keys())
    inter_pairs = [(('parse', {}, a), ('parse', {}, b)) for a in inter for b in inter if a != b]
    inter_pairs += [(('split', {}, a), ('parse', {}, b)) for a in [';;', 'a ;; b', 'case a in', 'a )'] for b in ['a=1', 'x=1 y', 'f a=1', 'a+=(b c) d']]
    rng.shuffle(inter_pairs)
    nhist = (150 if quick else 3000) + len(inter_pairs)
    evaluations = 0; nontrivial = set()
    real_token = bl.tokenizer.tokenizer.token
    for h in range(nhist):
        hist = [rng.choice(pool) for _ in range(rng.randint(2, 7))] if not ctx.get('replay') else list(pool)
        mode = rng.choice(['plain', 'plain', 'reentrant', 'abort'])
        if not ctx.get('replay') and h < len(inter_pairs):
            hist = list(inter_pairs[h]); mode = 'plain'
        for idx, p in enumerate(hist):
            key = json.dumps(p, sort_keys=True)
            evaluations += 1
            if mode == 'reentrant' and idx % 2 == 1:
                # a nested call from inside the running parse, at a token boundary
                inner = rng.choice(pool); at = rng.randint(1, 4); state = {'n': 0, 'busy': False, 'inner': None}
                def wrapped(self, _inner=inner, _at=at, _st=state):
                    _st['n'] += 1
                    if _st['n'] == _at and not _st['busy']:
                        _st['busy'] = True
                        try: _st['inner'] = call(_inner)
                        finally: _st['busy'] = False
                    return real_token(self)
                bl.tokenizer.tokenizer.token = wrapped
                try: got = call(p)
                finally: bl.tokenizer.tokenizer.token = real_token
                if state['inner'] is not None and state['inner'] != fresh[json.dumps(inner, sort_keys=True)]:
                    note('reentrant-inner-outcome-depends-on-history', hist[:idx + 1] + [inner], dict(got=state['inner'][:300], fresh=fresh[json.dumps(inner, sort_keys=True)][:300]))
            elif mode == 'abort' and idx % 2 == 0:
                # the call is aborted by an exception raised at a token boundary; later calls must not notice
                at = rng.randint(1, 3); state = {'n': 0}
                def wrapped(self, _at=at, _st=state):
                    _st['n'] += 1
                    if _st['n'] == _at: raise Abort()
                    return real_token(self)
                bl.tokenizer.tokenizer.token = wrapped
                try:
                    try: bl.parse(p[2])
                    except Abort: pass
                    except Exception: pass
                finally: bl.tokenizer.tokenizer.token = real_token
                got = call(p)
            else:
                got = call(p)
            nontrivial.add((key, idx))
            if got != fresh[key]:
                note('outcome-depends-on-history', hist[:idx + 1], dict(got=got[:400], fresh=fresh[key][:400], mode=mode))
            snap = snapshot(bl)
            if snap != base_snap:
                note('module-state-changed', hist[:idx + 1], dict(mode=mode)); base_snap = snap
        # growth of the defaultdict is the only permitted change; it must consist of looked-up characters of the inputs
        grown = set(bl.tokenizer.sh_syntaxtab.keys()) - base_keys
        allowed = set(''.join(p[2] for p in hist + pool)) | set('\n')   # (re-entrant calls come from the pool)
        if not grown <= allowed: note('sh_syntaxtab-grew-by-foreign-keys', hist, dict(keys=sorted(grown - allowed)))
        base_keys |= grown
    return dict(evaluations=evaluations, distinct_nontrivial=len(nontrivial),
                rule='%d histories of 2..7 calls drawn from a pool of %d calls (accepting, failing, unimplemented, nested, here-documents, all three entry points, '
                     'several option sets); modes: sequential, re-entrant (a second call made from inside the running parse at a random token boundary), aborted '
                     '(the parse is killed by an exception at a token boundary, then repeated); each outcome compared with the same call in a fresh interpreter '
                     '(one process per pool call) and with the Lean model; snapshot of tables, productions, defaulted states, token tables, eoftoken, syntax classes '
                     'around every call' % (nhist, len(pool)),
                samples=[[list(p) for p in pool[:2]], [list(p) for p in pool[-2:]]],
                violations=violations, finding_hits=finding_hits, corr_broken=corr_broken, classes={},
                extra=dict(signature_counts=dict(sig_count), pool=len(pool), histories=nhist))
