"""C15: callback trace of a recording nodevisitor subclass on the trees the implementation returns
versus the trace of the Lean model `visit` (whose agreement with the specification is proved for all
trees and all prune choices, Props/C15.lean)."""
import collections, random, json
import canon, gen, runner
from propchecks import common

def make_recorder(bl, prune_desc):
    base = bl.ast.nodevisitor
    node = bl.ast.node
    def d(v):
        if isinstance(v, node): return '<%s@%d-%d>' % (v.kind, v.pos[0], v.pos[1])
        if isinstance(v, list): return '[' + ','.join(d(x) for x in v) + ']'
        if isinstance(v, str): return "'" + v + "'"
        if v is None: return 'None'
        return str(v)
    # visitor classes related by inheritance, used one after the other: every instance must get the callbacks of ITS class
    # (the intermediate class prunes at words and overrides a few callbacks; the plain base class is traversed too)
    class Mid(base):
        def visitword(self, n, word): return False
        def visitcommand(self, n, parts): pass
        def visitlist(self, n, parts): pass
    class Rec(Mid):
        warm = (base, Mid)
        def __init__(self): self.trace = []; self.entered = []
        def visitnode(self, n): self.trace.append('E' + d(n)); self.entered.append(id(n))
        def visitnodeend(self, n): self.trace.append('L' + d(n))
    for name in dir(base):
        if name.startswith('visit') and name not in ('visit', 'visitnode', 'visitnodeend'):
            def mk(name):
                def cb(self, n, *args):
                    self.trace.append('C' + d(n) + '(' + ';'.join(d(a) for a in args) + ')')
                    if prune_desc is not None and d(n) == prune_desc: return False
                return cb
            setattr(Rec, name, mk(name))
    return Rec, d

def reachable_nodes(bl, roots):
    """ids of every node object reachable from the roots through ANY attribute (nodes, lists/tuples of nodes), each once"""
    node = bl.ast.node
    seen = {}; order = []
    stack = list(reversed(roots))
    while stack:
        n = stack.pop()
        if id(n) in seen: continue
        seen[id(n)] = n; order.append(n)
        for v in vars(n).values():
            if isinstance(v, node): stack.append(v)
            elif isinstance(v, (list, tuple)): stack.extend(x for x in v if isinstance(x, node))
    return seen

def esc(t):
    return t.replace('\\', '\\\\').replace('\n', '\\n').replace('\t', '\\t')

def run(ctx):
    tier, seed, findings = ctx['tier'], ctx['seed'], ctx['findings']
    quick = tier == 'quick'
    rng = random.Random(seed + 15)
    bl = runner.get_bashlex()
    inputs = common.dedup(common.corpus_inputs() + common.random_scripts(seed, 500 if quick else 8000, unsupported=0.06))
    if ctx.get('replay'): inputs = [json.load(open(ctx['replay']))['input']]
    lines = []; meta = []; kinds = collections.Counter(); identity_bad = []; shift_items = []; shift_meta = []
    for s in inputs:
        for opts in (dict(), dict(proceedonerror=True)):
            o = canon.run(bl, 'parse', s, **opts)
            if o.startswith('OK [{'):
                trees = bl.parse(s, **opts)
            else:
                # parse() runs visitors of its own on later parts; parsesingle hands out the tree of the first command as built
                o = canon.run(bl, 'single', s, **opts)
                if not o.startswith('ONE {'): continue
                trees = [bl.parsesingle(s, **opts)]
            Rec, d = make_recorder(bl, None)
            r = Rec()
            try:
                for t in trees:
                    for w in Rec.warm: w().visit(t)
                    r.visit(t)
            except Exception as e:
                meta.append((s, opts, '-', 'EXC %s: %s' % (type(e).__name__, e))); lines.append('visit\t-\t-\t' + o); continue
            # "reaches every node once": by object identity, over every attribute (a node hidden in `name`/`body`/... of another counts)
            reach = reachable_nodes(bl, trees)
            cnt = collections.Counter(r.entered)
            missing = [n for i, n in reach.items() if i not in cnt]
            twice = [reach[i] for i, c in cnt.items() if c > 1 and i in reach]
            if missing or twice:
                identity_bad.append((s, opts, ('not-visited:' + d(missing[0])) if missing else ('visited-twice:' + d(twice[0]))))
            # the helpers built on the visitor: posshifter(k) must move every span exactly once (Props.C15 preorder_mapPos on the model side)
            if not opts.get('convertpos') and len(shift_items) < (3000 if quick else 60000):
                import copy
                for k in ((1, 2, 3, 4) if len(reach) <= 14 else (rng.choice([1, 2, 3, 5, 8]),)):
                    try:
                        cp = copy.deepcopy(trees)
                        for t in cp: bl.ast.posshifter(k).visit(t)
                        so = ('OK ' if o.startswith('OK ') else 'OK ') + canon.canon(cp, bl.ast.node)
                    except Exception as e:
                        so = 'EXN F|%s|posshifter' % type(e).__name__
                    base = o if o.startswith('OK ') else 'OK [' + o[4:] + ']'
                    shift_items.append(('C13', [k], s, ['OK []', base, so])); shift_meta.append((s, opts, k))
            alln = [x[1:] for x in r.trace if x.startswith('E')]
            for x in alln: kinds[x[1:].split('@')[0]] += 1
            meta.append((s, opts, '-', esc(' '.join(r.trace)))); lines.append('visit\t-\t-\t' + o)
            # prune at chosen nodes (every node of small trees, a sample of larger ones)
            targets = alln if len(alln) <= 12 else rng.sample(alln, 6)
            for tg in targets:
                Rec2, _ = make_recorder(bl, tg)
                r2 = Rec2()
                for t in trees: r2.visit(t)
                meta.append((s, opts, tg, esc(' '.join(r2.trace)))); lines.append('visit\t%s\t-\t%s' % (esc(tg), o))
            if opts == {} and len(lines) > (40000 if quick else 10**9): break
    replies = []
    for k in range(0, len(lines), 5000): replies += runner.model_batch(lines[k:k + 5000])
    violations = []; corr_broken = []; nontrivial = set()
    for (s, opts, tg, itrace), mtrace in zip(meta, replies):
        nontrivial.add((s, tg))
        if itrace != mtrace:
            # the model's trace equals the specification trace (proved); a difference is a failing input
            sig = 'trace-differs' + (':raises' if itrace.startswith('EXC') else ':pruned' if tg != '-' else '')
            if len(violations) < 25 and not any(v['signature'] == sig for v in violations):
                violations.append(dict(property='C15', input=s, options=opts, prune_at=tg, signature=sig, impl_trace=itrace[:3000], spec_trace=mtrace[:3000],
                                       how='callback trace of a recording nodevisitor subclass versus Lean visit (= specification by Props.C15)'))
    from propchecks.relprops import rel_batch
    for k0 in range(0, len(shift_items), 1000):
        for (s_, opts_, k), sigs in zip(shift_meta[k0:], rel_batch(shift_items[k0:k0 + 1000])):
            if sigs:
                sig = 'posshifter-does-not-move-every-span-once'
                if len(violations) < 25 and not any(v['signature'] == sig for v in violations):
                    violations.append(dict(property='C15', input=s_, options=opts_, shift=k, signature=sig, detail=sigs[:3],
                                           how='ast.posshifter(k) applied to a copy of the returned tree versus Node.shift k (Lean) of the tree'))
    for s_, opts_, what in identity_bad:
        sig = 'node-' + what.split(':')[0]
        if len(violations) < 25 and not any(v['signature'] == sig for v in violations):
            violations.append(dict(property='C15', input=s_, options=opts_, signature=sig, detail=what,
                                   how='node objects reachable through any attribute versus the objects the visitor entered (by identity)'))
    return dict(evaluations=len(lines), distinct_nontrivial=len(nontrivial),
                rule='trees returned for corpus + seeded generated scripts (with and without proceedonerror, so unimplemented nodes occur); traversal without '
                     'pruning and with the callback returning False at every node of small trees (a sample of 6 nodes of larger ones); node kinds visited: %s' % dict(kinds),
                samples=[[m[0], m[2]] for m in meta[:3] + meta[-3:]],
                violations=violations, finding_hits={}, corr_broken=corr_broken, classes={'kinds': dict(kinds)})
