"""C11: ParsingError objects point into the caller's input (Spec: Eval.errOK, Lean)."""
import collections, random, json
import canon, gen, runner
from propchecks import common
from propchecks.relprops import rel_batch

def run(ctx):
    tier, seed, findings = ctx['tier'], ctx['seed'], ctx['findings']
    quick = tier == 'quick'
    rng = random.Random(seed + 99)
    base = common.random_scripts(seed, 500 if quick else 8000, mutate=0, wrap=0)
    inputs = common.finding_witnesses(findings) + common.corpus_inputs() + list(gen.exhaustive(3 if quick else 4))
    for s in base:
        for _ in range(3):
            m = gen.mutate(rng, s)
            inputs.append(m)
            x = rng.random()
            if x < 0.25: inputs.append('a $(' + m + ')')              # inside a substitution
            elif x < 0.4: inputs.append('ok1\nok2 x\n' + m)           # in a later line
            elif x < 0.5: inputs.append('a "$(b `' + m + '`)"')       # nested twice
            elif x < 0.6: inputs.append(m + '\nafter')
    # unexpected end of input inside a here-document, with and without a final newline, in several positions
    for s in base[:150 if quick else 2000]:
        t = s.rstrip('\n')
        if '<<' in t or '#' in t.split('\n')[-1]: continue
        x = rng.random()
        inputs.append(t + ' <<NEVER\nbody\n'); inputs.append(t + ' <<-NEVER\n\tbody')
        if x < 0.3: inputs.append('{ ' + t + ' <<NEVER\n}\nbody\n')
        elif x < 0.5: inputs.append(t + ' <<A <<B\nx\nA\ny\n')
    # rare token kinds as the offending token: named file descriptors, numbers, assignments, reserved words in odd places
    for ctxt in ['for %s', 'for a %s', 'a > %s', 'case %s', 'function %s', 'select %s', 'a | %s x', '%s', 'if %s', 'a && %s )', 'f() %s', 'a <<E %s )\nE\n', '( %s', '{ %s; ) }']:
        for tokn in ['{x}>f', '{fd}<g', '{v}>>h', '{_a}>&2', '0>x', '00<x', '7>&-', 'a=1', 'a+=(b)', 'then', 'do', '}', ';;', '&>f', '<<<w', '|&', '!', 'time']:
            inputs.append(ctxt % tokn)
    # carriage returns are ordinary characters: the error must point into the caller's string, CRs counted
    crs = []
    for m in inputs[::7][:400 if quick else 6000]:
        if '\n' in m and '\r' not in m:
            crs.append(m.replace('\n', '\r\n')); crs.append(m.replace('\n', '\r\n', 1))
    crs += ['{ a\r\n b ) }', 'a "b\r\nc', 'a\r\n)', 'a \r\n b; fi', 'if a\r\nthen b', 'a\r\n\r\n( b', 'x=$(a\r\n b', 'a \r )']
    inputs += crs
    inputs = common.dedup(inputs)
    if ctx.get('replay'):
        inputs = [json.load(open(ctx['replay']))['input']]
    optsets = [dict(), dict(strictmode=False, proceedonerror=True)]
    reqs = [(e, o, s) for s in inputs for (e, o) in (('parse', optsets[0]), ('parse', optsets[1]), ('single', {}), ('split', {}))]
    classes = collections.Counter(); corr_broken = []; items = []; keep = []
    for (req, i, m, it, mt) in runner.run_all(reqs):
        classes[runner.outcome_class(i)] += 1
        # observable of C11: the error triple (message, source, position); other outcomes by class
        oi = i if i.startswith('EXN PE') else runner.outcome_class(i)
        om = m if m.startswith('EXN PE') else runner.outcome_class(m)
        if oi != om: corr_broken.append(dict(request=[req[0], req[1], req[2]], impl=i[:400], model=m[:400]))
        if i.startswith('EXN PE'):
            items.append(('C11', [], req[2], [i])); keep.append(req)
    violations = []; finding_hits = {}; sig_count = collections.Counter(); nontrivial = set()
    for k in range(0, len(items), 2000):
        for req, item, sigs in zip(keep[k:], items[k:k + 2000], rel_batch(items[k:k + 2000])):
            nontrivial.add(req[2])
            for sig in sigs:
                sig_count[sig] += 1
                fid = common.match_finding(findings, sig, req[2])
                if fid: finding_hits.setdefault(fid, req[2][:80])
                elif len(violations) < 25 and not any(v['signature'] == sig for v in violations):
                    violations.append(dict(property='C11', input=req[2], entry=req[0], options=req[1], signature=sig, impl_outcome=item[3][0][:1500],
                                           how='Eval.errOK (Lean) evaluated on the implementation\'s ParsingError'))
    # "for an unexpected end of input p is len(s)" must not be a way out for an offending TOKEN: where the implementation reports
    # 'unexpected EOF' and GNU bash -n (search aid) names a concrete token, the error was not located at the offending token
    import subprocess, os
    from concurrent.futures import ThreadPoolExecutor
    if os.path.exists('/usr/bin/bash') or os.path.exists('/bin/bash'):
        eofs = [(req, item[3][0]) for req, item in zip(keep, items) if '|"unexpected EOF"|' in item[3][0] and req[0] == 'parse' and not req[1]
                and not any(x in req[2] for x in ('<<', '$', '`', '\\\n')) and all(ord(c) < 128 for c in req[2])]
        eofs = eofs[:3000 if quick else 40000]
        def bashmsg(s):
            try:
                p = subprocess.run(['bash', '--norc', '--noprofile', '-n'], input=s.encode(), stdout=subprocess.DEVNULL, stderr=subprocess.PIPE, timeout=5, env={'PATH': '/usr/bin:/bin'})
                return p.stderr.decode(errors='replace')
            except Exception:
                return ''
        with ThreadPoolExecutor(16) as ex: msgs = list(ex.map(bashmsg, [r[2] for r, _ in eofs]))
        for (req, out), m in zip(eofs, msgs):
            if 'near unexpected token' in m and "`newline'" not in m:
                # bash is only a search aid: where bash's grammar is narrower than the declared one (e.g. `!` followed by a list terminator, D12), the
                # input may be a viable prefix of the DECLARED grammar, and then end of input is the offending token. Viable = some continuation is accepted.
                def accepted(t):
                    try: return bool(runner.get_bashlex().parse(t))
                    except Exception: return False
                if any(accepted(req[2] + c) for c in (' a', ' a)', '\na\n)', ' a; }', '\na\n}', ' a; fi', ' a; done', ' a;; esac', ') a', ' a; then b; fi', ' a; do b; done')): continue
                sig = 'eof-reported-but-a-token-is-unexpected'
                sig_count[sig] += 1
                fid = common.match_finding(findings, sig, req[2])
                if fid: finding_hits.setdefault(fid, req[2][:80])
                elif len(violations) < 25 and not any(v['signature'] == sig for v in violations):
                    violations.append(dict(property='C11', input=req[2], entry=req[0], options=req[1], signature=sig, impl_outcome=out[:600], bash_says=m.strip()[:300],
                                           how='the implementation reports unexpected EOF at len(s); GNU bash -n (search aid) names the offending token'))
    return dict(evaluations=len(reqs), distinct_nontrivial=len(nontrivial),
                rule='rejected inputs: syntax-breaking mutations of generated scripts placed at top level, inside $(..), nested twice, in line 3, and followed by '
                     'more text; every string up to length %d; corpus; non-trivial = distinct input raising ParsingError (its triple is then checked). Calls '
                     'run back to back in one process, so every call has a history of earlier (failing and succeeding) calls.' % (3 if quick else 4),
                samples=[r[2] for r in keep[:3] + keep[-3:]],
                violations=violations, finding_hits=finding_hits, corr_broken=corr_broken, classes=dict(classes),
                extra=dict(signature_counts=dict(sig_count), errors_checked=len(items)))
