"""Input generators for the correspondence runs.  Every random choice comes from one
random.Random instance so that a run replays exactly from VERIF_SEED."""
import itertools, os, glob, ast as pyast

ALPHA24 = ['a', 'b', '=', '1', '$', '{', '}', '(', ')', '<', '>', '|', '&', ';', '!', '#',
           "'", '"', '`', '\\', '-', '~', ' ', '\n']

def exhaustive(maxlen, alphabet=ALPHA24, minlen=0):
    for n in range(minlen, maxlen + 1):
        for t in itertools.product(alphabet, repeat=n):
            yield ''.join(t)

def harvest_test_strings(repo):
    out = []
    for f in sorted(glob.glob(os.path.join(repo, 'tests', '*.py'))) + [os.path.join(repo, 'README.md')] \
            + sorted(glob.glob(os.path.join(repo, 'examples', '*.py'))):
        try:
            tree = pyast.parse(open(f).read())
        except Exception:
            continue
        for n in pyast.walk(tree):
            if isinstance(n, pyast.Constant) and isinstance(n.value, str) and len(n.value) < 300:
                out.append(n.value)
    seen = set(); res = []
    for s in out:
        if s not in seen and all(ord(c) < 128 for c in s):
            seen.add(s); res.append(s)
    return res

def corpus_files(corpusdir):
    """minimised past disagreements and finding witnesses: one python string literal per line"""
    res = []
    for f in sorted(glob.glob(os.path.join(corpusdir, '*.txt'))):
        for line in open(f):
            line = line.strip()
            if not line or line.startswith('#'): continue
            try:
                v = pyast.literal_eval(line)
                if isinstance(v, str): res.append(v)
            except Exception:
                pass
    return res

HANDWRITTEN = [
    'a <<E\nx\nE\n', 'a <<-E\n\tx\n\tE\n', 'a <<E <<F\nx\nE\ny\nF\n', 'a <<E', 'a <<E\nx\n', "a <<'E'\nx\nE\n",
    'a <<E\nx\nE\nb', 'cat <<E &&\nx\nE\nb\nnext', 'cat <<E |\nx\nE\nwc -l\nnext x', 'a <<E ||\nx\nE\nb && c\nd', 'cat <<EOF\n\\\nfoo\nEOF\n', 'cat <<EOF\n\\\nfoo\nEOF\nb', '{ a <<E\nx\nE\n}', '( a <<E\nx\nE\n)', 'a <<E | b\nx\nE\n', 'a <<E && b <<F\n1\nE\n2\nF\nc',
    'case x in a) b;; esac', 'case x in a|b) c;; (d) e;& f) g;;& esac', 'case x in\na) b\n;;\nesac',
    'for i in a b; do c; done', 'for i; do c; done', 'for i\ndo c\ndone', 'for i in a\n{ c; }',
    'function f { a; }', 'f() { a; }', 'function f() { a; }', 'f()\n{ a; } >x',
    'if a; then b; fi', 'if a; then b; else c; fi', 'if a; then b; elif c; then d; fi',
    'if a; then b; elif c; then d; elif e; then f; else g; fi', 'if a\nthen b\nfi',
    'while a; do b; done', 'until a; do b; done', 'while a\ndo b\ndone',
    '$(case x in a) b;; esac)', '$(a <<E\nx\nE\n)', '${a:-"b}"}', "$'a\\'b'", '"a`b`c"', 'a=(b c)', '[[ a ]]',
    'time -p a', 'time a', '1>&2-', '{a}>b', 'a 2>&1', 'a &>b', 'a &>>b', 'a <<<b', 'a <(b) >(c)', 'a<>b', 'a>|b',
    'a;;b', '! a', '! a | b', 'a | b |& c', 'a && b || c; d & e', 'a &\n', 'a;\n', '( a )', '( a; b )', '{ a; }',
    '{ a; b; }', 'a\\\nb', 'a \\\n b', 'a # c', 'a #c\nb', '#c\na', '\n\na', 'a\n\n', 'a\nb\nc',
    'a $(b $(c $(d)))', 'a `b`', 'a "$(b)"', 'a "`b`"', "a '$(b)'", "x'$(a)'", "'a''b'", 'a"b\'c"', '"a\\qb"',
    'a ~ ~/b ~c/d a~b', 'a=~/b', 'a $b ${c} $1 $? $$ $# $@ $* $- $!', 'a=b c=d e', 'a=b', 'a+=b', 'a=$(b)',
    'select x in a; do b; done', 'coproc a', '(( a ))', 'for ((;;)); do a; done', '$((1+2))', '$[1+2]',
    'a $(b\nc)', 'a $(b;)', 'a $(b && c)', 'a $(b &)', 'a $()', 'a $(b )', 'a $( b)', 'a $(b | c)', 'a $(b; c)',
    'a <(b )', 'a $=b', 'a "$ b"', 'a$', 'a $', 'a\\', 'a\\\n', '1\\\n', '{a}\\\n', 'a$\\\n',
    '` `', '`\n`', "a'`'", "a'${'", 'x { if a; then b; fi }', '! ;', '!\n\n', '!', '! !', 'a | ! b',
    'esac', 'in', 'do', 'done', 'fi', 'then', 'else', 'elif', '}', '{', ')', '(', 'a )', 'a }', 'a { b',
    'a "b', "a 'b", 'a `b', 'a $(b', 'a ${b', 'a <', 'a >', 'a |', 'a &&', '&& a', '; a', 'a ;; b', 'a & & b',
    'if a; then b', 'if a; b; fi', 'while a; b; done', 'for; do a; done', 'case x a) b;; esac', 'case x in a b;; esac',
    'function { a; }', 'f( { a; }', 'f() a', 'a () { b; }', '{ a }', '{a; }', '(a', 'a)', '((a)', 'a <<', 'a << <b',
    'a\tb', '\ta', 'a \t', 'a\\ b', 'a\\\\b', 'a"\\""b', "a'\\'b", 'a\\"b', "a\\'b", 'a"b"c\'d\'e', '""', "''", 'a "" b',
    '"a b"', "'a b'", '"a\\\nb"', "'a\\\nb'", 'a"$b"c', 'a"${b}"c', 'a"$(b)"c', '"~"', "'~'", '\\~', 'a"$(b "c")"d',
    '"$(a "$(b "$(c)")")"', '$(a "b)" c)', '$(a \'b)\' c)', '$(a \\) c)', '$(a # )\n)', '$( (a) )', '$( ( a ); b )',
    'a 1>b 2>c 3<d', 'a >b>c', '>a b', '<a b >c', 'a > b c', '2>a', '2 >a', 'a 2 >b', 'a 12>b', 'a 007>b', 'a >&2', 'a >&b', 'a <&-', 'a 3<&4',
]

WORDS_PLAIN = ['a', 'b', 'c', 'foo', 'x1', '-l', '--opt', '1', '42', 'a.b', '/bin/x', './y', 'a-b', 'a_b', '@', '%', '+', ',', ':', 'a:b', '[', ']', '*', '?']
RESERVED = ['if', 'then', 'else', 'elif', 'fi', 'case', 'esac', 'for', 'select', 'while', 'until', 'do', 'done',
            'in', 'function', 'time', '{', '}', '!', '[[', ']]', 'coproc']

class Gen:
    """grammar-based generator of (mostly valid) shell text with layout and quoting choices"""
    def __init__(self, rng, maxdepth=2, heredocs=True, unsupported=0.01, multiline_subst=0.03):
        self.r = rng
        self.maxdepth = maxdepth
        self.heredocs = heredocs
        self.unsupported = unsupported
        self.multiline_subst = multiline_subst
        self.pending = []     # pending here-document bodies (text) for the current line
        self.budget = 12      # remaining "complexity" of the script being generated

    def spend(self, n=1):
        self.budget -= n
        return self.budget > 0

    # ---- layout ----
    def sp(self):
        x = self.r.random()
        if x < 0.75: return ' '
        if x < 0.85: return '  '
        if x < 0.90: return '\t'
        if x < 0.955: return ' \\\n '
        if x < 0.965: return self.r.choice([' \\\n\\\n', ' \\\n\\\n ', '\t\\\n \\\n'])     # adjacent continuations
        return '   '
    def osp(self):
        return self.sp() if self.r.random() < 0.3 else ''
    def flush_heredocs(self):
        out = ''.join(self.pending)
        self.pending = []
        return out
    def nl(self):
        """a newline (flushing pending here-document bodies), maybe with comment / blank lines"""
        s = ''
        if self.r.random() < 0.08: s += (self.osp() or ' ') + '# c' + self.r.choice(['', ' x', ' $(y)', " '", ' \\', '\\', ' x\\\\'])
        s += '\n' + self.flush_heredocs()
        if self.r.random() < 0.1: s += '\n'
        if self.r.random() < 0.05: s += self.r.choice([' # d\n', ' # d\n', '#\\\n', ' # d \\\n'])
        return s
    def term(self):
        """list terminator inside compound commands: ';' or newline"""
        if self.r.random() < 0.7: return self.osp() + ';' + self.sp()
        return self.osp() + self.nl() + self.osp()

    # ---- words ----
    def name(self):
        return self.r.choice(['a', 'b', 'x', 'foo', 'A1', '_v'])
    def plain(self):
        return self.r.choice(WORDS_PLAIN)
    def word_piece(self, depth, indq=False):
        x = self.r.random()
        if self.budget <= 0 or not self.spend(0.3): x = x * 0.45
        if x < 0.55: return self.plain() if not indq else self.r.choice(['a', 'b c', 'x  y', '#', ';', '|', '&', '(', ')', '<', '>', "'"])
        if x < 0.60: return '$' + self.name()
        if x < 0.63:
            if self.r.random() < 0.3 and depth <= self.maxdepth and self.spend(1):
                # an operand made of word pieces: quotes, $"..", nested expansions inside ${...}
                op = self.r.choice([':-', '-', ':=', ':+', '+', '#', '%', '/'])
                operand = ''.join(self.r.choice(['$"x"', "$'y'", '"z w"', "'v'", '\\}', 'u']) if self.r.random() < 0.4 else self.word_piece(depth + 1, indq)
                                  for _ in range(self.r.randint(1, 2)))
                return '${' + self.name() + op + operand + '}'
            return '${' + self.name() + self.r.choice(['', ':-x', '#y', '%%z', ':=w', '/a/b', ':1:2']) + '}'
        if x < 0.65: return '$' + self.r.choice('0123456789$#?-!*@')
        if x < 0.72 and depth < self.maxdepth: return '$(' + self.subst_body(depth + 1) + ')'
        if x < 0.76 and depth < self.maxdepth: return '`' + self.simple(depth + 1, bare=True) + '`'
        if x < 0.80 and not indq: return "'" + self.r.choice(['a', 'b c', '$x', '$(y)', '`z`', '\\', '"', 'a\\b', '~', '#', ';']) + "'"
        if x < 0.88 and not indq:
            n = self.r.randint(0, 3)
            return '"' + ''.join(self.word_piece(depth, True) for _ in range(n)) + '"'
        if x < 0.92: return '\\' + self.r.choice(['a', ' ', '$', '"', "'", '\\', ';', '|', '`', '#', '~', '(', '<']) if not indq else '\\' + self.r.choice(['$', '"', '\\', '`', 'q', 'n'])
        if x < 0.94 and not indq: return '~' + self.r.choice(['', 'u', '/x', 'u/x'])
        if x < 0.96 and not indq and depth < self.maxdepth: return self.r.choice(['<(', '>(']) + self.subst_body(depth + 1) + ')'
        if x < 0.97 and not indq: return self.r.choice(["$'a\\nb'", '$"x"', '$$', '$', 'a$'])
        return self.plain() if not indq else 'q'
    def word(self, depth, first=False):
        n = 1 if self.r.random() < 0.8 else self.r.randint(2, 3)
        w = ''.join(self.word_piece(depth) for _ in range(n))
        if not w: w = 'e'
        if first and (w in RESERVED or w.startswith('#') or '=' in w): w = 'c' + w
        if w.startswith('#'): w = 'h' + w
        return w
    def arg(self, depth):
        if self.r.random() < 0.05: return self.r.choice(RESERVED[:16])     # reserved word as plain argument
        return self.word(depth)
    def subst_body(self, depth):
        x = self.r.random()
        self.spend(2)
        if x < 0.7: s = self.simple(depth, bare=True)
        elif x < 0.85: s = self.pipeline(depth)
        elif x < 0.92: s = self.listline(depth)
        else: s = self.command(depth)
        if self.r.random() < self.multiline_subst: s += '\n' + self.simple(depth, bare=True)
        elif self.heredocs and self.r.random() < 0.015:
            # a here-document inside the substitution (read by _parse_comsub)
            d = self.r.choice(['E', 'EOF'])
            s += ' ' + self.r.choice(['<<', '<<-', '<< ']) + d + '\n' + self.r.choice(['x\n', '\ty\n', '', ')\n', "'\n", '(\n', 'case\n', '`\n']) + self.r.choice(['', '\t']) + d + '\n'
        if self.r.random() < 0.1: s = ' ' + s
        if self.r.random() < 0.05: s = s + ' '
        return s

    # ---- commands ----
    def redirect(self, depth, allow_heredoc):
        x = self.r.random()
        fd = self.r.choice(['', '', '', '1', '2', '10'])
        if self.r.random() < 0.03: fd = self.r.choice(['{v}', '{fd}', '{a1}'])      # named descriptor (REDIR_WORD)
        if x < 0.5: return fd + self.r.choice(['>', '<', '>>', '>|', '<>']) + self.osp() + self.word(depth)
        if x < 0.6: return fd + self.r.choice(['>&', '<&']) + self.r.choice(['1', '2', '-', self.plain()])
        if x < 0.68: return self.r.choice(['&>', '&>>']) + self.osp() + self.word(depth)
        if x < 0.76: return fd + '<<<' + self.osp() + self.word(depth)
        if allow_heredoc and self.heredocs:
            delim = self.r.choice(['E', 'EOF', 'E1', 'x'])
            spell = self.r.choice([delim, delim, delim, "'" + delim + "'", '"' + delim + '"', '\\' + delim])
            if self.r.random() < 0.04: delim = ''; spell = self.r.choice(['""', "''"])      # the body ends at the first empty line
            dash = self.r.random() < 0.3
            body = ''.join(self.r.choice(['x\n', ' y z\n', '\n', delim + 'x\n', ' ' + delim + '\n', '$(a)\n', '\tq\n', 'a\\\nb\n', '\\\nfoo\n'])
                           for _ in range(self.r.randint(0, 3)))
            end = ('\t' if dash and self.r.random() < 0.5 else '') + delim + '\n'
            self.pending.append(body + end)
            return fd + ('<<-' if dash else '<<') + self.osp() + spell
        return fd + '>' + self.osp() + self.word(depth)
    def simple(self, depth, bare=False):
        parts = []
        for _ in range(self.r.choice([0, 0, 0, 0, 0, 1, 2])):
            parts.append(self.name() + self.r.choice(['=', '=', '+=']) + (self.word(depth) if self.r.random() < 0.8 else ''))
        self.spend(1)
        nwords = self.r.choice([1, 1, 2, 2, 3]) if not parts or self.r.random() < 0.8 else 0
        for i in range(nwords):
            parts.append(self.word(depth, first=True) if i == 0 else self.arg(depth))
        nred = 0 if bare else self.r.choice([0, 0, 0, 0, 0, 0, 1, 1, 2])
        for _ in range(nred):
            pos = self.r.randint(0, len(parts))
            parts.insert(pos, self.redirect(depth, allow_heredoc=(depth == 0)))
        if not parts: parts = ['a']
        out = parts[0]
        for p in parts[1:]: out += self.sp() + p
        return out
    def compound(self, depth):
        d = depth + 1
        self.spend(3)
        x = self.r.random()
        if x < 0.15: return '(' + self.osp() + self.clist(d) + self.osp() + ')'
        if x < 0.30: return '{' + self.sp() + self.clist(d, needterm=True) + '}'
        if x < 0.50:
            s = 'if' + self.sp() + self.clist(d, needterm=True) + 'then' + self.sp() + self.clist(d, needterm=True)
            for _ in range(self.r.choice([0, 0, 1, 2, 3])):
                s += 'elif' + self.sp() + self.clist(d, needterm=True) + 'then' + self.sp() + self.clist(d, needterm=True)
            if self.r.random() < 0.4: s += 'else' + self.sp() + self.clist(d, needterm=True)
            return s + 'fi'
        if x < 0.62:
            return self.r.choice(['while', 'until']) + self.sp() + self.clist(d, needterm=True) + 'do' + self.sp() + self.clist(d, needterm=True) + 'done'
        if x < 0.75:
            s = 'for' + self.sp() + self.name()
            y = self.r.random()
            if y < 0.6:
                s += self.sp() + 'in' + ''.join(self.sp() + self.word(d) for _ in range(self.r.randint(0, 3))) + self.term()
            elif y < 0.8: s += self.osp() + ';' + self.sp()
            else: s += self.osp() + self.nl()
            if self.r.random() < 0.85: s += 'do' + self.sp() + self.clist(d, needterm=True) + 'done'
            else: s += '{' + self.sp() + self.clist(d, needterm=True) + '}'
            return s
        if x < 0.88:
            s = 'case' + self.sp() + self.word(d) + self.sp() + 'in' + self.r.choice([' ', '\n', ' \n '])
            n = self.r.randint(0, 3)
            for i in range(n):
                pat = ('(' if self.r.random() < 0.2 else '') + '|'.join(self.word(d) for _ in range(self.r.randint(1, 2))) + ')'
                body = (self.sp() + self.clist(d)) if self.r.random() < 0.85 else ''
                last = i == n - 1
                sep = self.r.choice([';;', ';;', ';&', ';;&'])
                if last and self.r.random() < 0.3: sep = self.r.choice(['\n', ' '])
                s += pat + body + self.osp() + sep + self.r.choice([' ', '\n', ' '])
            return s + 'esac'
        body = self.compound(depth) if self.r.random() < 0.3 else '{' + self.sp() + self.clist(d, needterm=True) + '}'
        y = self.r.random()
        fn = self.r.choice(['f', 'g', 'fn_1', 'a', 'b', 'c', 'foo'])
        if self.r.random() < 0.1: fn = self.r.choice(['$f', '${f}x', 'f$1', '~u', 'f"g"', "f'g'", 'f\\g', '$(f)', 'f.g', 'f-g', '1f', 'f=g'])       # odd names (expansions are not performed on them)
        if y < 0.4: return fn + self.osp() + '()' + self.r.choice([' ', '\n', '']) + body
        if y < 0.7: return 'function' + self.sp() + fn + self.r.choice([' ', '\n']) + body
        return 'function' + self.sp() + fn + self.osp() + '()' + self.r.choice([' ', '\n']) + body
    def unsupported_cmd(self, depth):
        if self.r.random() < 0.4:
            # an unsupported construct around generated pieces, with trailing redirections
            body = self.r.choice(['{ ' + self.simple(depth, bare=True) + '; }', '(' + self.simple(depth, bare=True) + ')', 'while a; do ' + self.simple(depth, bare=True) + '; done'])
            red = ''.join(' ' + self.redirect(depth, allow_heredoc=False) for _ in range(self.r.choice([0, 1, 1, 2])))
            return self.r.choice(['coproc ' + body + red, 'coproc ' + self.name() + ' ' + body + red, 'select ' + self.name() + ' in ' + self.word(depth) + '; do ' + self.simple(depth, bare=True) + '; done' + red,
                                  'time ' + body + red, 'time -p ' + self.simple(depth, bare=True)])
        return self.r.choice(['select x in a b; do c; done', 'coproc a', 'coproc { a; }', '(( 1 + 2 ))', 'for (( i=0; i<3; i++ )); do a; done',
                              '[[ a = b ]]', 'time a', 'time -p a | b', 'a $((1+2))', 'a $[1+2]', 'time'])
    def command(self, depth):
        if self.r.random() < self.unsupported: return self.unsupported_cmd(depth)
        if depth < self.maxdepth and self.budget > 0 and self.r.random() < 0.25:
            c = self.compound(depth)
            for _ in range(self.r.choice([0, 0, 0, 1, 2])):
                c += self.sp() + self.redirect(depth, allow_heredoc=False)
            return c
        return self.simple(depth)
    def pipeline(self, depth):
        s = ('!' + self.sp()) if self.r.random() < 0.1 else ''
        if s and self.r.random() < 0.08: return '!'          # `!` alone (BANG list_terminator)
        if s and self.r.random() < 0.2: s = s * self.r.choice([2, 2, 3])          # several negations: each `!` is a token and a leaf of its own
        s += self.command(depth)
        for _ in range(self.r.choice([0, 0, 0, 0, 1, 1, 2]) if self.budget > 0 else 0):
            s += self.osp() + self.r.choice(['|', '|', '|&']) + (self.osp() if self.r.random() < 0.8 else self.osp() + self.nl()) + self.command(depth)
        return s
    def andor(self, depth):
        s = self.pipeline(depth)
        for _ in range(self.r.choice([0, 0, 0, 0, 1, 2]) if self.budget > 0 else 0):
            s += self.osp() + self.r.choice(['&&', '||']) + (self.osp() if self.r.random() < (0.4 if (self.pending and depth == 0) else 0.85) else self.nl()) + self.pipeline(depth)
        return s
    def listline(self, depth):
        """one-line list: and-or lists joined by ; or &, optional trailing ; or &"""
        s = self.andor(depth)
        for _ in range(self.r.choice([0, 0, 0, 0, 1, 2]) if self.budget > 0 else 0):
            s += self.osp() + self.r.choice([';', ';', '&']) + self.sp() + self.andor(depth)
        if self.r.random() < 0.2: s += self.osp() + self.r.choice([';', '&'])
        return s
    def clist(self, depth, needterm=False):
        """compound_list: items separated by ; & or newlines; with needterm a terminator follows"""
        s = self.andor(depth)
        for _ in range(self.r.choice([0, 0, 0, 0, 1, 2]) if self.budget > 0 else 0):
            sep = self.r.choice([';', '&', '\n'])
            s += (self.osp() + sep + self.sp()) if sep != '\n' else (self.osp() + self.nl() + self.osp())
            s += self.andor(depth)
        if needterm: s += self.term()
        elif self.r.random() < 0.3: s += self.osp() + self.r.choice([';', '&', self.nl()])
        return s
    def script(self, nlines=None, budget=None):
        n = nlines or self.r.choice([1, 1, 1, 2, 2, 3])
        self.pending = []
        self.budget = budget if budget is not None else self.r.choice([3, 6, 10, 16])
        s = ''
        if self.r.random() < 0.1: s += self.r.choice(['\n', ' ', '# c\n', '\n\n', '  \n'])
        for i in range(n):
            if i > 0: self.budget = max(self.budget, 3)
            s += self.listline(0)
            if i < n - 1 or self.r.random() < 0.5 or self.pending:
                s += self.nl()
        return s

def mutate(rng, s):
    """syntax-level mutations: deletion / duplication / swap / insertion of critical characters"""
    if not s: return rng.choice(ALPHA24)
    x = rng.random()
    i = rng.randrange(len(s))
    crit = ['"', "'", '`', '\\', '$', '(', ')', '{', '}', ';', '&', '|', '<', '>', '\n', ' ', '#', '!', '\\\n', '$(', '${', 'esac', 'fi', 'done', 'in', 'do', 'then', '<<E', ';;']
    if x < 0.3: return s[:i] + s[i+1:]
    if x < 0.6: return s[:i] + rng.choice(crit) + s[i:]
    if x < 0.7: return s[:i] + s[i] + s[i:]
    if x < 0.8 and len(s) > 1:
        j = rng.randrange(len(s)); a, b = min(i, j), max(i, j)
        return s[:a] + s[b] + s[a+1:b] + s[a] + s[b+1:] if a != b else s
    if x < 0.9:
        j = rng.randrange(i, len(s) + 1)
        return s[:i] + s[j:]
    return s[:i] + rng.choice(crit) + s[i+1:]

def wrap(rng, s):
    """embed a script in another context"""
    x = rng.random()
    if x < 0.2: return 'a $(' + s + ')'
    if x < 0.3: return 'a "$(' + s + ')"'
    if x < 0.4: return 'a `' + s + '`'
    if x < 0.5: return 'a <(' + s + ')'
    if x < 0.6: return '( ' + s + ' )'
    if x < 0.7: return '{ ' + s + '; }'
    if x < 0.8: return 'b\n' + s
    if x < 0.9: return s + '\nb'
    return 'x=$(' + s + ') y'
