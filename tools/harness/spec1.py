#!/venv/bin/python
"""debug: spec signatures with node positions for one input:  spec1.py PROPS 'python-literal' [proceed]"""
import sys, os, ast
sys.path.insert(0, os.path.dirname(os.path.abspath(__file__)))
import canon, runner
bl = runner.get_bashlex()
props, lit = sys.argv[1], sys.argv[2]
s = ast.literal_eval(lit) if lit[:1] in '\'"' else lit
opts = dict(proceedonerror=True) if len(sys.argv) > 3 else {}
o = canon.run(bl, 'parse', s, **opts)
print(o[:3000])
if o.startswith('OK'):
    print(runner.model_batch(['specdbg\t%s\t%s\t%s' % (props, canon.enc_input(s) or '-', o)])[0])
