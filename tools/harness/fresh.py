#!/venv/bin/python
"""Outcome of ONE call in a fresh interpreter: fresh.py <repo> <json request [entry, opts, input]>"""
import sys, os, json
sys.path.insert(0, os.path.dirname(os.path.abspath(__file__)))
import canon
repo, req = sys.argv[1], json.loads(sys.argv[2])
sys.path.insert(0, repo)
import bashlex
entry, opts, s = req
print(canon.norm_outcome(canon.run(bashlex, entry, s, **(opts if entry != 'split' else {}))))
