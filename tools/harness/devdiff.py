#!/venv/bin/python
"""Development tool: broad model-vs-implementation diff (not a registered check)."""
import sys, os, argparse, random, collections, time
HERE = os.path.dirname(os.path.abspath(__file__))
sys.path.insert(0, HERE)
import canon, gen, runner

def main():
    ap = argparse.ArgumentParser()
    ap.add_argument('--maxlen', type=int, default=0)
    ap.add_argument('--minlen', type=int, default=0)
    ap.add_argument('--random', type=int, default=0)
    ap.add_argument('--seed', type=int, default=0)
    ap.add_argument('--corpus', action='store_true')
    ap.add_argument('--grid', action='store_true', help='all option combinations / entry points')
    ap.add_argument('--mutate', type=int, default=0)
    ap.add_argument('--show', type=int, default=12)
    args = ap.parse_args()
    rng = random.Random(args.seed)
    inputs = []
    if args.corpus:
        inputs += gen.harvest_test_strings(runner.REPO) + gen.HANDWRITTEN + gen.corpus_files(os.path.join(runner.VERIF, 'corpus'))
    if args.maxlen:
        inputs += list(gen.exhaustive(args.maxlen, minlen=args.minlen))
    g = gen.Gen(rng)
    for _ in range(args.random):
        g.pending = []
        s = g.script()
        inputs.append(s)
        for _ in range(args.mutate):
            s2 = gen.mutate(rng, s)
            inputs.append(s2)
        if rng.random() < 0.2: inputs.append(gen.wrap(rng, s))
    reqs = []
    grid = [dict(strictmode=st, expansionlimit=l, convertpos=c, proceedonerror=p)
            for st in (True, False) for l in (None, 0, 1, 2) for c in (False, True) for p in (False, True)]
    for s in inputs:
        if args.grid:
            for o in grid: reqs.append(('parse', o, s))
            reqs.append(('single', {}, s)); reqs.append(('single', dict(convertpos=True, proceedonerror=True), s))
            reqs.append(('split', {}, s))
        else:
            reqs.append(('parse', {}, s))
    t0 = time.time()
    bad = 0; classes = collections.Counter(); tbad = 0
    for (req, i, m, it, mt) in runner.run_all(reqs):
        classes[runner.outcome_class(i)] += 1
        if i != m:
            bad += 1
            if bad <= args.show:
                print('MISMATCH', req[0], req[1], repr(req[2])); print('  impl :', i[:700]); print('  model:', m[:700])
        elif it != mt:
            tbad += 1
            if tbad <= 3: print('TOUCHED-MISMATCH', repr(req[2]), it, mt)
    print('requests', len(reqs), 'mismatches', bad, 'touched-mismatches', tbad, 'time %.1fs' % (time.time() - t0))
    for k, v in classes.most_common(12): print('  ', k, v)
    sys.exit(1 if bad or tbad else 0)

if __name__ == '__main__':
    main()
