#!/venv/bin/python
"""Runs parse calls under a sys.addaudithook observer (in a process of its own: a hook cannot be
removed).  stdin: JSON {repo, calls: [[entry, opts, input]...], mode: "calls"|"import"};
stdout: JSON {events: [[call index, event, args repr]...], listing_before/after for mode import}."""
import sys, os, json, hashlib
req = json.load(sys.stdin)
repo = req['repo']
events = []
state = {'on': False, 'idx': -1}
WATCH = ('open', 'os.', 'subprocess.', 'socket.', 'exec', 'compile', 'import', 'shutil.', 'tempfile.', 'ctypes.', 'urllib.', 'http.', 'ftplib.',
         'smtplib.', 'webbrowser.', 'pty.', 'fcntl.', 'mmap.', 'glob.', 'pathlib.', 'sqlite3.', 'signal.', 'syslog.', 'winreg.', 'marshal.', 'pickle.', 'code.', 'cpython.')
def hook(event, args):
    if not state['on']: return
    if event.startswith(WATCH):
        try: a = repr(args)[:200]
        except Exception: a = '?'
        events.append([state['idx'], event, a])
def listing(d):
    out = {}
    for root, dirs, files in os.walk(d):
        dirs[:] = [x for x in dirs if x != '__pycache__']
        for f in files:
            p = os.path.join(root, f)
            if f.endswith('.pyc'): continue
            out[os.path.relpath(p, d)] = hashlib.sha256(open(p, 'rb').read()).hexdigest()[:16]
    return out
sys.path.insert(0, repo)
res = {}
if req['mode'] == 'import':
    pkg = os.path.join(repo, 'bashlex')
    cwd_before = sorted(os.listdir('.'))
    res['listing_before'] = listing(pkg)
    mods_before = set(sys.modules)
    sys.addaudithook(hook)
    state['on'] = True
    import bashlex
    state['on'] = False
    res['listing_after'] = listing(pkg)
    res['cwd_new'] = sorted(set(os.listdir('.')) - set(cwd_before))
    res['modules'] = sorted(m for m in set(sys.modules) - mods_before if m.split('.')[0] not in sys.stdlib_module_names and not m.startswith('bashlex') and m not in ('__main__',))
else:
    import bashlex
    sys.addaudithook(hook)
    for i, (entry, opts, s) in enumerate(req['calls']):
        state['idx'] = i; state['on'] = True
        try:
            if entry == 'parse': bashlex.parse(s, **opts)
            elif entry == 'single': bashlex.parsesingle(s, **opts)
            else: list(bashlex.split(s))
        except BaseException:
            pass
        finally:
            state['on'] = False
res['events'] = events
print(json.dumps(res))
