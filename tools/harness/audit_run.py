#!/venv/bin/python
"""Runs parse calls under a sys.addaudithook observer (in a process of its own: a hook cannot be
removed).  stdin: JSON {repo, calls: [[entry, opts, input]...], mode: "calls"|"import"};
stdout: JSON {events: [[call index, event, args repr]...], listing_before/after for mode import}."""
import sys, os, json, hashlib
req = json.load(sys.stdin)
repo = req['repo']
events = []
state = {'on': False, 'idx': -1}
WATCH = ('open', 'os.', 'subprocess.', 'socket.', 'exec', 'compile', 'import', 'shutil.', 'tempfile.', 'ctypes.', 'urllib.', 'http.', 'ftplib.',
         'smtplib.', 'webbrowser.', 'pty.', 'fcntl.', 'mmap.', 'glob.', 'pathlib.', 'sqlite3.', 'signal.', 'syslog.', 'winreg.', 'marshal.', 'pickle.', 'code.', 'cpython.')
def hook(event, args):
    if not state['on']: return
    if event.startswith(WATCH):
        try: a = repr(args)[:200]
        except Exception: a = '?'
        events.append([state['idx'], event, a])
def listing(d):
    out = {}
    for root, dirs, files in os.walk(d):
        dirs[:] = [x for x in dirs if x != '__pycache__']
        for f in files:
            p = os.path.join(root, f)
            if f.endswith('.pyc'): continue
            out[os.path.relpath(p, d)] = hashlib.sha256(open(p, 'rb').read()).hexdigest()[:16]
    return out
sys.path.insert(0, repo)
res = {}
if req['mode'] == 'import':
    pkg = os.path.join(repo, 'bashlex')
    cwd_before = sorted(os.listdir('.'))
    res['listing_before'] = listing(pkg)
    mods_before = set(sys.modules)
    sys.addaudithook(hook)
    state['on'] = True
    import bashlex
    state['on'] = False
    res['listing_after'] = listing(pkg)
    res['cwd_new'] = sorted(set(os.listdir('.')) - set(cwd_before))
    res['modules'] = sorted(m for m in set(sys.modules) - mods_before if m.split('.')[0] not in sys.stdlib_module_names and not m.startswith('bashlex') and m not in ('__main__',))
else:
    import bashlex
    sys.addaudithook(hook)
    # environment variables and file-system queries raise no audit event: observe them through the names
    # Python code reaches them by (os.environ / os.getenv / os.stat ... as module attributes)
    class _Env(type(os.environ)):
        pass
    def _rec(kind):
        def note(*a):
            if state['on']: events.append([state['idx'], kind, repr(a)[:200]])
        return note
    _envnote = _rec('environ.read')
    _orig_env = os.environ
    class RecEnv(dict):
        def __init__(self, base): dict.__init__(self, base)
        def __getitem__(self, k): _envnote(k); return dict.__getitem__(self, k)
        def get(self, k, d=None): _envnote(k); return dict.get(self, k, d)
        def __contains__(self, k): _envnote(k); return dict.__contains__(self, k)
        def __setitem__(self, k, v): _rec('environ.write')(k); dict.__setitem__(self, k, v)
        def __delitem__(self, k): _rec('environ.write')(k); dict.__delitem__(self, k)
        def copy(self): _envnote('*copy'); return dict(self)
        def items(self): _envnote('*items'); return dict.items(self)
        def keys(self): _envnote('*keys'); return dict.keys(self)
    os.environ = RecEnv(_orig_env)
    _getenv = os.getenv
    os.getenv = lambda k, d=None: (_envnote(k), os.environ.get(k, d))[1]
    for name in ('stat', 'lstat', 'access', 'readlink', 'getcwd', 'utime', 'chdir', 'umask', 'getlogin'):
        if hasattr(os, name):
            def mk(name, f):
                note = _rec('fs.' + name)
                def w(*a, **k):
                    note(*a); return f(*a, **k)
                return w
            setattr(os, name, mk(name, getattr(os, name)))
    for i, (entry, opts, s) in enumerate(req['calls']):
        state['idx'] = i; state['on'] = True
        try:
            if entry == 'parse': bashlex.parse(s, **opts)
            elif entry == 'single': bashlex.parsesingle(s, **opts)
            else: list(bashlex.split(s))
        except BaseException:
            pass
        finally:
            state['on'] = False
res['events'] = events
print(json.dumps(res))
