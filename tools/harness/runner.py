"""Parallel correspondence runner: the implementation (in-process) and the Lean driver on the
same requests."""
import sys, os, subprocess, multiprocessing as mp, itertools, collections, time
HERE = os.path.dirname(os.path.abspath(__file__))
sys.path.insert(0, HERE)
import canon

VERIF = os.path.abspath(os.path.join(HERE, '..', '..'))
DRIVER = os.path.join(VERIF, 'lean', '.lake', 'build', 'bin', 'driver')
REPO = os.environ.get('VERIF_REPO', '/repo')

_bashlex = None
_initial_keys = None
def get_bashlex():
    global _bashlex, _initial_keys
    if _bashlex is None:
        if REPO not in sys.path: sys.path.insert(0, REPO)
        import bashlex
        _bashlex = bashlex
        # keys present after import (the _addsyntax calls); the model reports every key it looks
        # up, growth of the defaultdict is what is new relative to these
        _initial_keys = set(bashlex.tokenizer.sh_syntaxtab.keys())
    return _bashlex

def model_batch(lines):
    """lines: list of request lines (without newline) -> list of reply lines"""
    if not lines: return []
    p = subprocess.run([DRIVER], input=('\n'.join(lines) + '\n').encode(), stdout=subprocess.PIPE, check=True)
    out = p.stdout.decode().split('\n')
    if out and out[-1] == '': out.pop()
    if len(out) != len(lines):
        raise RuntimeError('driver returned %d lines for %d requests' % (len(out), len(lines)))
    return out

def req_line(cmd, opts, s):
    return '%s\t%s\t%s' % (cmd, canon.opts_str(**opts), canon.enc_input(s) or '-')

def impl_run(cmd, opts, s):
    bl = get_bashlex()
    tab = bl.tokenizer.sh_syntaxtab
    before = set(tab.keys())
    out = canon.run(bl, cmd, s, **(opts if cmd != 'split' else {}))
    new = sorted(set(tab.keys()) - before)
    for k in new: del tab[k]
    touched = '.'.join('%x' % ord(c) for c in sorted(new))
    return out, touched

def _work(chunk):
    """chunk: list of (cmd, opts, s).  Returns list of (impl, model, impl_touched, model_touched)"""
    lines = [req_line(c, o, s) for c, o, s in chunk]
    replies = model_batch(lines)
    res = []
    for (c, o, s), rep in zip(chunk, replies):
        m, _, mt = rep.rpartition(' ## ')
        i, it = impl_run(c, o, s)
        mt = '.'.join(h for h in mt.split('.') if h and chr(int(h, 16)) not in _initial_keys)
        res.append((canon.norm_outcome(i), canon.norm_outcome(m), it, mt))
    return res

def chunks(it, n):
    it = iter(it)
    while True:
        c = list(itertools.islice(it, n))
        if not c: return
        yield c

def run_all(requests, nproc=None, chunk=500):
    """yield (request, impl, model, impl_touched, model_touched) for every request, in order"""
    nproc = nproc or min(16, os.cpu_count() or 1)
    reqs = requests if isinstance(requests, list) else list(requests)
    if len(reqs) <= chunk or nproc == 1:
        for c in chunks(reqs, chunk):
            for r, x in zip(c, _work(c)):
                yield (r,) + x
        return
    with mp.Pool(nproc) as pool:
        for c, res in zip(chunks(reqs, chunk), pool.imap(_work, chunks(reqs, chunk))):
            for r, x in zip(c, res):
                yield (r,) + x

def outcome_class(line):
    if line.startswith('OK '): return 'ok' if line != 'OK []' else 'ok-empty'
    if line.startswith('ONE '): return 'one' if line != 'ONE None' else 'one-none'
    if line.startswith('STRS '): return 'strs'
    if line.startswith('EXN PE'): return 'ParsingError'
    if line.startswith('EXN NI'): return 'NotImplementedError'
    if line.startswith('EXN FUEL'): return 'timeout'
    if line.startswith('EXN F|'): return 'foreign:' + line[6:]
    return 'other'
