"""Parallel correspondence runner: the implementation (in-process) and the Lean driver on the
same requests."""
import sys, os, subprocess, multiprocessing as mp, itertools, collections, time
HERE = os.path.dirname(os.path.abspath(__file__))
sys.path.insert(0, HERE)
import canon

VERIF = os.path.abspath(os.path.join(HERE, '..', '..'))
DRIVER = os.path.join(VERIF, 'lean', '.lake', 'build', 'bin', 'driver')
REPO = os.environ.get('VERIF_REPO', '/repo')

_bashlex = None
_initial_keys = None
def get_bashlex():
    global _bashlex, _initial_keys
    if _bashlex is None:
        if REPO not in sys.path: sys.path.insert(0, REPO)
        import bashlex
        _bashlex = bashlex
        # keys present after import (the _addsyntax calls); the model reports every key it looks
        # up, growth of the defaultdict is what is new relative to these
        _initial_keys = set(bashlex.tokenizer.sh_syntaxtab.keys())
    return _bashlex

def model_batch(lines):
    """lines: list of request lines (without newline) -> list of reply lines"""
    if not lines: return []
    p = subprocess.run([DRIVER], input=('\n'.join(lines) + '\n').encode(), stdout=subprocess.PIPE, check=True)
    out = p.stdout.decode().split('\n')
    if out and out[-1] == '': out.pop()
    if len(out) != len(lines):
        raise RuntimeError('driver returned %d lines for %d requests' % (len(out), len(lines)))
    return out

def req_line(cmd, opts, s):
    return '%s\t%s\t%s' % (cmd, canon.opts_str(**opts), canon.enc_input(s) or '-')

# wall-clock budget of one call of the implementation.  The unchanged library answers every generated
# input in well under a second; the budget only has to survive a loaded machine.  A change that makes
# calls hang must not make the check itself hang: after BREAKER budgets were exhausted in one worker the
# remaining calls of that worker get SHORT_TIMEOUT (every timeout is re-confirmed alone afterwards).
CALL_TIMEOUT = int(os.environ.get('VERIF_CALL_TIMEOUT', '20'))
SHORT_TIMEOUT = 2
BREAKER = 4
MEM_LIMIT = 6 << 30     # address-space cap while the implementation runs (a hang that allocates)
_timeouts_seen = 0

def impl_run(cmd, opts, s, timeout=None):
    global _timeouts_seen
    import resource
    bl = get_bashlex()
    tab = bl.tokenizer.sh_syntaxtab
    before = set(tab.keys())
    if timeout is None:
        timeout = CALL_TIMEOUT if _timeouts_seen < BREAKER else SHORT_TIMEOUT
    soft, hard = resource.getrlimit(resource.RLIMIT_AS)
    try:
        try: resource.setrlimit(resource.RLIMIT_AS, (MEM_LIMIT if hard == resource.RLIM_INFINITY else min(MEM_LIMIT, hard), hard))
        except (ValueError, OSError): pass
        out = canon.run(bl, cmd, s, timeout=timeout, **(opts if cmd != 'split' else {}))
    finally:
        try: resource.setrlimit(resource.RLIMIT_AS, (soft, hard))
        except (ValueError, OSError): pass
    if out.startswith('EXN FUEL'): _timeouts_seen += 1
    new = sorted(set(tab.keys()) - before)
    for k in new: del tab[k]
    touched = '.'.join('%x' % ord(c) for c in sorted(new))
    return out, touched

def _work(chunk):
    """chunk: list of (cmd, opts, s).  Returns list of (impl, model, impl_touched, model_touched)"""
    lines = [req_line(c, o, s) for c, o, s in chunk]
    replies = model_batch(lines)
    res = []
    for (c, o, s), rep in zip(chunk, replies):
        m, _, mt = rep.rpartition(' ## ')
        i, it = impl_run(c, o, s)
        mt = '.'.join(h for h in mt.split('.') if h and chr(int(h, 16)) not in _initial_keys)
        res.append((canon.norm_outcome(i), canon.norm_outcome(m), it, mt))
    return res

def chunks(it, n):
    it = iter(it)
    while True:
        c = list(itertools.islice(it, n))
        if not c: return
        yield c

def run_all(requests, nproc=None, chunk=500):
    """yield (request, impl, model, impl_touched, model_touched) for every request, in order"""
    nproc = nproc or min(16, os.cpu_count() or 1)
    reqs = requests if isinstance(requests, list) else list(requests)
    if len(reqs) <= chunk or nproc == 1:
        for c in chunks(reqs, chunk):
            for r, x in zip(c, _work(c)):
                yield (r,) + x
        return
    with mp.Pool(nproc) as pool:
        for c, res in zip(chunks(reqs, chunk), pool.imap(_work, chunks(reqs, chunk))):
            for r, x in zip(c, res):
                yield (r,) + x

def _confirm(req_timeout):
    (cmd, opts, s), timeout = req_timeout
    return canon.norm_outcome(impl_run(cmd, opts, s, timeout=timeout)[0])

def confirm_alone(req, timeout=120):
    """re-run one request in a fresh process with nothing else of ours running: the outcome line"""
    with mp.Pool(1) as pool:
        return pool.apply(_confirm, ((req, timeout),))

def outcome_class(line):
    if line.startswith('OK '): return 'ok' if line != 'OK []' else 'ok-empty'
    if line.startswith('ONE '): return 'one' if line != 'ONE None' else 'one-none'
    if line.startswith('STRS '): return 'strs'
    if line.startswith('EXN PE'): return 'ParsingError'
    if line.startswith('EXN NI'): return 'NotImplementedError'
    if line.startswith('EXN FUEL'): return 'timeout'
    if line.startswith('EXN F|'): return 'foreign:' + line[6:]
    return 'other'
