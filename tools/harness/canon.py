"""Canonical text form of bashlex outcomes (must agree with lean/Bashlex/Serialize.lean)."""
import sys, signal, traceback

def qstr(s):
    out = ['"']
    for ch in s:
        o = ord(ch)
        if ch == '\\': out.append('\\\\')
        elif ch == '"': out.append('\\"')
        elif ch == '\n': out.append('\\n')
        elif ch == '\t': out.append('\\t')
        elif o < 32 or o > 126: out.append('\\u{%x}' % o)
        else: out.append(ch)
    out.append('"')
    return ''.join(out)

def canon(v, node_cls):
    if isinstance(v, node_cls):
        d = vars(v)
        items = []
        for k in sorted(d):
            val = d[k]
            if d.get('kind') == 'function' and k in ('name', 'body') and isinstance(d.get('parts'), list):
                idx = [i for i, x in enumerate(d['parts']) if x is val]
                if idx:
                    items.append('%s=@%d' % (k, idx[0]))
                    continue
            items.append('%s=%s' % (k, canon(val, node_cls)))
        return '{' + ','.join(items) + '}'
    if isinstance(v, list):
        return '[' + ','.join(canon(x, node_cls) for x in v) + ']'
    if isinstance(v, tuple):
        return '(' + ','.join(canon(x, node_cls) for x in v) + ')'
    if isinstance(v, bool):
        return 'b:%s' % v
    if isinstance(v, int):
        return str(v)
    if isinstance(v, str):
        return qstr(v)
    if v is None:
        return 'None'
    return '<%s>' % type(v).__name__

class Timeout(Exception):
    pass

def _alarm(sig, frm):
    raise Timeout()

def site_of(exc, pkgdir):
    """innermost frame inside the bashlex package: last component of its qualified name"""
    tb = exc.__traceback__
    name = '?'
    while tb is not None:
        code = tb.tb_frame.f_code
        if code.co_filename.startswith(pkgdir):
            qn = getattr(code, 'co_qualname', code.co_name)
            name = qn.split('.')[-1]
        tb = tb.tb_next
    return name

def norm_site(s):
    return s.split('.')[-1].split('(')[0]

def run(bashlex, entry, s, timeout=60, **opts):
    """run an entry point, return the canonical outcome line"""
    import os
    pkgdir = os.path.dirname(bashlex.__file__)
    node_cls = bashlex.ast.node
    errors = bashlex.errors
    old = signal.signal(signal.SIGALRM, _alarm)
    signal.alarm(timeout)
    try:
        try:
            if entry == 'parse':
                r = bashlex.parse(s, **opts)
                out = 'OK ' + canon(r, node_cls)
            elif entry == 'single':
                r = bashlex.parsesingle(s, **opts)
                out = 'ONE ' + canon(r, node_cls)
            elif entry == 'split':
                r = list(bashlex.split(s))
                out = 'STRS ' + canon(r, node_cls)
            else:
                raise ValueError(entry)
        finally:
            signal.alarm(0)
    except Timeout:
        out = 'EXN FUEL|timeout'
    except errors.ParsingError as e:
        out = 'EXN PE|%s|%s|%s' % (qstr(e.message), qstr(e.s) if isinstance(e.s, str) else '<%s>' % type(e.s).__name__, e.position)
    except NotImplementedError:
        out = 'EXN NI'
    except RecursionError:
        out = 'EXN F|RecursionError|?'
    except Exception as e:
        out = 'EXN F|%s|%s' % (type(e).__name__, site_of(e, pkgdir))
    finally:
        signal.signal(signal.SIGALRM, old)
    return out

def norm_outcome(line):
    """normalise the site of foreign exceptions / fuel to its last component"""
    if line.startswith('EXN F|'):
        _, ty, site = line.split('|', 2)
        return 'EXN F|%s|%s' % (ty, norm_site(site))
    if line.startswith('EXN FUEL|'):
        return 'EXN FUEL'
    return line

def enc_input(s):
    return '.'.join('%x' % ord(c) for c in s)

def opts_str(strictmode=True, expansionlimit=None, convertpos=False, proceedonerror=False):
    return 's=%d,l=%s,c=%d,p=%d' % (int(bool(strictmode)), 'N' if expansionlimit is None else expansionlimit,
                                    int(bool(convertpos)), int(bool(proceedonerror)))
