#!/venv/bin/python
"""Development tool: evaluate Spec predicates on implementation outcomes, list signatures."""
import sys, os, argparse, random, collections
HERE = os.path.dirname(os.path.abspath(__file__))
sys.path.insert(0, HERE)
import canon, gen, runner

def main():
    ap = argparse.ArgumentParser()
    ap.add_argument('--random', type=int, default=2000)
    ap.add_argument('--seed', type=int, default=0)
    ap.add_argument('--maxlen', type=int, default=0)
    ap.add_argument('--props', default='C03,C04,C05,C12')
    ap.add_argument('--proceed', action='store_true')
    args = ap.parse_args()
    rng = random.Random(args.seed)
    bl = runner.get_bashlex()
    inputs = gen.harvest_test_strings(runner.REPO) + gen.HANDWRITTEN
    g = gen.Gen(rng)
    for _ in range(args.random): inputs.append(g.script())
    if args.maxlen: inputs += list(gen.exhaustive(args.maxlen))
    lines = []; keep = []
    opts = dict(proceedonerror=True) if args.proceed else {}
    for s in inputs:
        o = canon.run(bl, 'parse', s, **opts)
        if o.startswith('OK '):
            lines.append('spec\t%s\t%s\t%s' % (args.props, canon.enc_input(s) or '-', o)); keep.append(s)
    replies = runner.model_batch(lines)
    sigs = collections.Counter(); ex = {}
    for s, r in zip(keep, replies):
        if r.startswith('ILL') or r.startswith('BAD'):
            sigs[r[:80]] += 1; ex.setdefault(r[:80], []).append(s); continue
        for item in r.split(' '):
            p, _, v = item.partition(':')
            for sig in filter(None, v.split(',')):
                k = p + ' ' + sig
                sigs[k] += 1; ex.setdefault(k, []).append(s)
    print('trees', len(keep))
    for k, v in sorted(sigs.items()):
        print(v, k)
        for e in sorted(ex[k], key=len)[:4]: print('      ', repr(e)[:160])

if __name__ == '__main__':
    main()
