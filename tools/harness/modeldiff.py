#!/venv/bin/python
"""Differential run: model (Lean driver) versus implementation on the same requests."""
import sys, os, subprocess, argparse, random, itertools, ast as pyast, glob
HERE = os.path.dirname(os.path.abspath(__file__))
sys.path.insert(0, HERE)
import canon

DRIVER = os.path.join(HERE, '..', '..', 'lean', '.lake', 'build', 'bin', 'driver')

def harvest_test_strings(repo):
    out = []
    for f in sorted(glob.glob(os.path.join(repo, 'tests', '*.py'))) + [os.path.join(repo, 'README.md')]:
        try:
            tree = pyast.parse(open(f).read())
        except Exception:
            continue
        for n in pyast.walk(tree):
            if isinstance(n, pyast.Constant) and isinstance(n.value, str) and len(n.value) < 200:
                out.append(n.value)
    seen = set(); res = []
    for s in out:
        if s not in seen and all(ord(c) < 128 for c in s):
            seen.add(s); res.append(s)
    return res

def model_batch(requests):
    """requests: list of (cmd, opts_str, input) -> list of reply lines"""
    inp = ''.join('%s %s %s\n' % (c, o, canon.enc_input(s) or '-') for c, o, s in requests)
    p = subprocess.run([DRIVER], input=inp.encode(), stdout=subprocess.PIPE, check=True)
    lines = p.stdout.decode().split('\n')
    if lines and lines[-1] == '': lines.pop()
    assert len(lines) == len(requests), (len(lines), len(requests))
    return lines

def main():
    ap = argparse.ArgumentParser()
    ap.add_argument('--repo', default='/repo')
    ap.add_argument('inputs', nargs='*')
    args = ap.parse_args()
    sys.path.insert(0, args.repo)
    import bashlex
    strs = args.inputs or harvest_test_strings(args.repo)
    reqs = []
    for s in strs:
        reqs.append(('parse', canon.opts_str(), s))
    replies = model_batch(reqs)
    bad = 0
    for (cmd, o, s), rep in zip(reqs, replies):
        m = canon.norm_outcome(rep.rpartition(' ## ')[0])
        i = canon.norm_outcome(canon.run(bashlex, cmd, s))
        if m != i:
            bad += 1
            if bad <= 15:
                print('MISMATCH', repr(s)); print('  impl :', i[:600]); print('  model:', m[:600])
    print('compared', len(reqs), 'mismatches', bad)

if __name__ == '__main__':
    main()
