#!/venv/bin/python
"""Line coverage of the implementation by a set of requests (measured generator quality).
stdin: JSON list of [entry, opts, input]; stdout: JSON {file: {lines, covered, percent, missing: "a-b,c"}}.
Runs in its own interpreter so that tracing does not slow the correspondence run down."""
import sys, os, json
HERE = os.path.dirname(os.path.abspath(__file__))
sys.path.insert(0, HERE)
REPO = os.environ.get('VERIF_REPO', '/repo')

def ranges(nums):
    out = []; start = prev = None
    for n in sorted(nums):
        if start is None: start = prev = n
        elif n == prev + 1: prev = n
        else: out.append((start, prev)); start = prev = n
    if start is not None: out.append((start, prev))
    return ','.join('%d' % a if a == b else '%d-%d' % (a, b) for a, b in out)

def main():
    reqs = json.load(sys.stdin)
    import coverage
    cov = coverage.Coverage(data_file=None, include=[os.path.join(REPO, 'bashlex', '*.py')], omit=[os.path.join(REPO, 'bashlex', 'yacc.py'), os.path.join(REPO, 'bashlex', 'parsetab.py')])
    cov.start()
    sys.path.insert(0, REPO)
    import bashlex, canon
    slow = 0
    for entry, opts, s in reqs:
        out = canon.run(bashlex, entry, s, timeout=2, **(opts if entry != 'split' else {}))
        if out.startswith('EXN FUEL'):
            slow += 1
            if slow >= 5: break      # a change that hangs must not hang the measurement
    cov.stop()
    res = {}
    tot = cov_tot = 0
    for f in sorted(cov.get_data().measured_files()):
        _, stmts, _, missing, _ = cov.analysis2(f)
        n = len(stmts); c = n - len(missing)
        tot += n; cov_tot += c
        res[os.path.basename(f)] = dict(lines=n, covered=c, percent=round(100.0 * c / max(n, 1), 1), missing=ranges(missing))
    res['_total'] = dict(lines=tot, covered=cov_tot, percent=round(100.0 * cov_tot / max(tot, 1), 1))
    print(json.dumps(res))

if __name__ == '__main__':
    main()
