#!/venv/bin/python
"""Mechanical mutation scan (development tool, not a registered check): every single-site mutant of the library
that still passes the repository's own tests is run against the Lean model on the quick-tier inputs; mutants
that the correspondence does not notice are listed - each is either equivalent or a gap of the generators.
usage: mutscan.py <scratch repo copy> <out.json> [file ...]"""
import sys, os, ast, copy, json, subprocess, time, random
HERE = os.path.dirname(os.path.abspath(__file__))
scratch, outp = sys.argv[1], sys.argv[2]
files = sys.argv[3:] or ['tokenizer.py', 'parser.py', 'subst.py', 'heredoc.py', 'ast.py', 'utils.py', 'shutils.py', 'state.py', 'errors.py']
os.environ['VERIF_REPO'] = scratch
sys.path.insert(0, os.path.join(HERE, 'harness')); sys.path.insert(0, HERE)

CMP = {ast.Eq: ast.NotEq, ast.NotEq: ast.Eq, ast.Lt: ast.LtE, ast.LtE: ast.Lt, ast.Gt: ast.GtE, ast.GtE: ast.Gt,
       ast.In: ast.NotIn, ast.NotIn: ast.In, ast.Is: ast.IsNot, ast.IsNot: ast.Is}

def sites(tree):
    """(description, mutator) for every mutation site; the mutator edits the (copied) tree in place"""
    out = []
    nodes = list(ast.walk(tree))
    for idx, n in enumerate(nodes):
        ln = getattr(n, 'lineno', 0)
        if isinstance(n, ast.Compare) and len(n.ops) == 1 and type(n.ops[0]) in CMP:
            out.append(('%d: compare %s -> %s' % (ln, type(n.ops[0]).__name__, CMP[type(n.ops[0])].__name__), idx, 'cmp'))
        elif isinstance(n, ast.BoolOp):
            out.append(('%d: boolop %s -> other' % (ln, type(n.op).__name__), idx, 'bool'))
        elif isinstance(n, ast.UnaryOp) and isinstance(n.op, ast.Not):
            out.append(('%d: drop not' % ln, idx, 'not'))
        elif isinstance(n, ast.Constant) and isinstance(n.value, bool):
            out.append(('%d: %s -> %s' % (ln, n.value, not n.value), idx, 'boolc'))
        elif isinstance(n, ast.Constant) and isinstance(n.value, int) and not isinstance(n.value, bool) and -2 <= n.value <= 3:
            out.append(('%d: int %d -> %d' % (ln, n.value, n.value + 1), idx, 'int+'))
            out.append(('%d: int %d -> %d' % (ln, n.value, n.value - 1), idx, 'int-'))
        elif isinstance(n, ast.BinOp) and isinstance(n.op, (ast.Add, ast.Sub)):
            out.append(('%d: binop %s -> other' % (ln, type(n.op).__name__), idx, 'arith'))
        elif isinstance(n, ast.If) and not n.orelse:
            out.append(('%d: if -> if True' % ln, idx, 'iftrue'))
        elif isinstance(n, ast.Expr) and isinstance(n.value, ast.Call):
            out.append(('%d: drop call statement' % ln, idx, 'dropcall'))
        elif isinstance(n, ast.Assign) and len(n.targets) == 1 and isinstance(n.targets[0], ast.Attribute):
            out.append(('%d: drop attribute assignment' % ln, idx, 'dropassign'))
        elif isinstance(n, ast.AugAssign):
            out.append(('%d: drop augmented assignment' % ln, idx, 'dropaug'))
        elif isinstance(n, (ast.Break, ast.Continue)):
            out.append(('%d: %s -> pass' % (ln, type(n).__name__), idx, 'droploop'))
    return out

def apply(tree, idx, kind):
    t = copy.deepcopy(tree)
    n = list(ast.walk(t))[idx]
    if kind == 'cmp': n.ops[0] = CMP[type(n.ops[0])]()
    elif kind == 'bool': n.op = ast.Or() if isinstance(n.op, ast.And) else ast.And()
    elif kind == 'not': n.op = ast.UAdd(); n.operand = ast.Call(func=ast.Name(id='bool', ctx=ast.Load()), args=[n.operand], keywords=[])
    elif kind == 'boolc': n.value = not n.value
    elif kind == 'int+': n.value += 1
    elif kind == 'int-': n.value -= 1
    elif kind == 'arith': n.op = ast.Sub() if isinstance(n.op, ast.Add) else ast.Add()
    elif kind == 'iftrue': n.test = ast.Constant(value=True)
    elif kind in ('dropcall', 'dropassign', 'dropaug', 'droploop'):
        for p in ast.walk(t):
            for f in ('body', 'orelse', 'finalbody'):
                b = getattr(p, f, None)
                if isinstance(b, list) and n in b: b[b.index(n)] = ast.Pass()
    return ast.fix_missing_locations(t)

def run_group(cmd, timeout, **kw):
    """run in its own process group; on timeout kill the whole group"""
    import signal
    p = subprocess.Popen(cmd, stdout=subprocess.PIPE, stderr=subprocess.DEVNULL, start_new_session=True, **kw)
    try:
        out, _ = p.communicate(timeout=timeout)
        return out
    except subprocess.TimeoutExpired:
        try: os.killpg(p.pid, signal.SIGKILL)
        except Exception: pass
        p.wait()
        raise

def tests_pass():
    out = run_group(['/venv/bin/python', '-m', 'pytest', '-q', '-x', '-p', 'no:cacheprovider'], 60, cwd=scratch)
    return b'63 passed' in out

DIFF = os.path.join(HERE, 'mutdiff.py')
def differs():
    """run the correspondence on the quick inputs in a subprocess (fresh import of the mutated package)"""
    out = run_group(['/venv/bin/python', DIFF], 600, env=dict(os.environ, VERIF_REPO=scratch))
    try: return json.loads(out.decode().strip().splitlines()[-1])
    except Exception: return dict(error=out.decode()[-300:])

results = json.load(open(outp)) if os.path.exists(outp) else {}
for f in files:
    path = os.path.join(scratch, 'bashlex', f)
    orig = open(path).read()
    tree = ast.parse(orig)
    ss = sites(tree)
    print(f, len(ss), 'sites', flush=True)
    try:
        for desc, idx, kind in ss:
            key = f + ':' + desc
            if key in results: continue
            try: src = ast.unparse(apply(tree, idx, kind))
            except Exception as e: results[key] = dict(status='unparse-failed'); continue
            open(path, 'w').write(src)
            t0 = time.time()
            try:
                if not tests_pass(): results[key] = dict(status='killed-by-tests')
                else:
                    d = differs()
                    results[key] = dict(status='detected' if d.get('mismatches') else 'NOT-DETECTED' if 'mismatches' in d else 'error', **d)
            except subprocess.TimeoutExpired:
                results[key] = dict(status='timeout')
            results[key]['s'] = round(time.time() - t0, 1)
            if results[key]['status'] in ('NOT-DETECTED', 'error'): print('  ', key, results[key], flush=True)
            json.dump(results, open(outp, 'w'), indent=0)
    finally:
        open(path, 'w').write(orig)
c = {}
for v in results.values(): c[v['status']] = c.get(v['status'], 0) + 1
print(c)
