#!/bin/sh
# reseed.sh <seeded-name> <Cxx> [tier]: apply seeded/<name>/patch.diff to a scratch worktree of /repo, run one check against it, clean up
name=$1; prop=$2; tier=${3:-quick}
wt=/root/rs/$name
git -C /repo worktree add --detach $wt HEAD >/dev/null 2>&1
git -C $wt apply /verif/seeded/$name/patch.diff || { echo "patch failed"; git -C /repo worktree remove --force $wt; exit 2; }
cd /verif && VERIF_REPO=$wt ./check $prop --tier $tier 2>&1 | grep -v "^KNOWN" | tail -3
git -C /repo worktree remove --force $wt
/venv/bin/python /verif/tools/extract.py >/dev/null; rm -rf /verif/replays; git -C /verif checkout -q evidence 2>/dev/null
