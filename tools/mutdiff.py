#!/venv/bin/python
"""model vs (mutated) implementation on the quick-tier inputs of the tree checks; prints {"mismatches": n, "first": ...}"""
import sys, os, json, random
HERE = os.path.dirname(os.path.abspath(__file__))
sys.path.insert(0, os.path.join(HERE, 'harness')); sys.path.insert(0, HERE)
import runner, gen, canon
from propchecks import common
ins = common.dedup(common.corpus_inputs() + common.random_scripts(0, 1500, mutate=1, unsupported=0.06) + list(gen.exhaustive(3)))
rng = random.Random(1)
reqs = []
optsets = [{}, dict(proceedonerror=True, strictmode=False), dict(expansionlimit=0), dict(convertpos=True), dict(expansionlimit=1, proceedonerror=True)]
for s in ins:
    reqs.append(('parse', {}, s))
    if len(s) > 3:
        reqs.append(('parse', rng.choice(optsets[1:]), s))
        if rng.random() < 0.2: reqs.append(('split', {}, s))
        if rng.random() < 0.2: reqs.append(('single', rng.choice(optsets), s))
n = 0; first = None
for (req, i, m, it, mt) in runner.run_all(reqs):
    if i != m or it != mt:
        n += 1
        if first is None: first = [req[0], req[1], req[2][:120], i[:100], m[:100]]
print(json.dumps(dict(mismatches=n, first=first, requests=len(reqs))))
